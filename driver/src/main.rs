// factgen — rustc_private driver that dumps "facts" (resolved MIR, ADTs, constants, impls) of the
// crate being compiled as JSON lines.  Injected through RUSTC_WORKSPACE_WRAPPER under
// `cargo +nightly check`.  Zero cargo dependencies; JSON is emitted by hand.
//
// Environment:
//   FACTGEN_OUT     directory for <crate>.jsonl (required for fact output; otherwise plain rustc)
//   FACTGEN_CRATES  comma separated crate names to dump (default: all workspace members seen)
//
// One process writes one file (tmp + rename).  Invocations that produce linkable output
// (`--emit=...link`, i.e. build-dependencies / build scripts / proc-macros) do not write facts.
#![feature(rustc_private)]
#![allow(clippy::too_many_arguments)]

extern crate rustc_abi;
extern crate rustc_driver;
extern crate rustc_hir;
extern crate rustc_interface;
extern crate rustc_middle;
extern crate rustc_session;
extern crate rustc_span;

use rustc_driver::Compilation;
use rustc_hir::def::DefKind;
use rustc_hir::def_id::{DefId, LOCAL_CRATE};
use rustc_middle::mir::{
    AggregateKind, BasicBlock, Body, Const, ConstValue, Operand, Place, PlaceRef, ProjectionElem,
    Rvalue, StatementKind, TerminatorKind, UnwindAction,
};
use rustc_middle::ty::{self, Instance, Ty, TyCtxt, TypingEnv};
use rustc_span::{ExpnKind, Span};
use std::fmt::Write as _;

fn esc(s: &str, out: &mut String) {
    out.push('"');
    for c in s.chars() {
        match c {
            '"' => out.push_str("\\\""),
            '\\' => out.push_str("\\\\"),
            '\n' => out.push_str("\\n"),
            '\r' => out.push_str("\\r"),
            '\t' => out.push_str("\\t"),
            c if (c as u32) < 0x20 => {
                let _ = write!(out, "\\u{:04x}", c as u32);
            }
            c => out.push(c),
        }
    }
    out.push('"');
}

fn js(s: &str) -> String {
    let mut o = String::with_capacity(s.len() + 2);
    esc(s, &mut o);
    o
}

fn strip_generics(p: &str) -> String {
    // remove every `::<...>` (balanced) from a printed path
    let b: Vec<char> = p.chars().collect();
    let mut o = String::with_capacity(p.len());
    let mut i = 0;
    while i < b.len() {
        if b[i] == ':' && i + 2 < b.len() && b[i + 1] == ':' && b[i + 2] == '<' {
            let mut depth = 0i32;
            let mut j = i + 2;
            while j < b.len() {
                if b[j] == '<' {
                    depth += 1;
                } else if b[j] == '>' && (j == 0 || b[j - 1] != '-') {
                    depth -= 1;
                    if depth == 0 {
                        break;
                    }
                }
                j += 1;
            }
            i = j + 1;
            continue;
        }
        o.push(b[i]);
        i += 1;
    }
    o
}

struct Cx<'tcx> {
    tcx: TyCtxt<'tcx>,
}

impl<'tcx> Cx<'tcx> {
    fn path(&self, d: DefId) -> String {
        // human readable, crate-qualified path; generic argument lists `::<..>` are stripped
        let p = rustc_middle::ty::print::with_no_trimmed_paths!(
            rustc_middle::ty::print::with_resolve_crate_name!(self.tcx.def_path_str(d))
        );
        strip_generics(&p)
    }

    fn dpath(&self, d: DefId) -> String {
        // unique verbose def path
        let tcx = self.tcx;
        let krate = tcx.crate_name(d.krate);
        let p = tcx.def_path(d).to_string_no_crate_verbose();
        format!("{}{}", krate, p)
    }

    fn ty_str(&self, t: Ty<'tcx>) -> String {
        // full paths, no trimming, so that std::collections::HashMap<.., RandomState> is visible
        rustc_middle::ty::print::with_no_trimmed_paths!(
            rustc_middle::ty::print::with_resolve_crate_name!(format!("{}", t))
        )
    }

    fn span_info(&self, sp: Span) -> (usize, String) {
        let sm = self.tcx.sess.source_map();
        let cs = sp.source_callsite();
        let line = sm.lookup_char_pos(cs.lo()).line;
        let mut macs: Vec<String> = Vec::new();
        if sp.from_expansion() {
            for ed in sp.macro_backtrace() {
                match ed.kind {
                    ExpnKind::Macro(_, name) => macs.push(name.to_string()),
                    ExpnKind::Desugaring(k) => macs.push(format!("desugar:{:?}", k)),
                    ExpnKind::AstPass(_) => macs.push("astpass".to_string()),
                    ExpnKind::Root => {}
                }
            }
        }
        (line, macs.join(">"))
    }

    fn const_val_json(&self, owner: DefId, c: &Const<'tcx>) -> (String, Option<String>) {
        // returns (json value or null, def path of an unevaluated/named constant)
        let tcx = self.tcx;
        let env = TypingEnv::post_analysis(tcx, owner);
        let ty = c.ty();
        let mut named = None;
        if let Const::Unevaluated(u, _) = c {
            // "<visible path>|<verbose def path>": the loader maps the latter to the defining crate's name
            named = Some(format!("{}|{}", self.path(u.def), self.dpath(u.def)));
        }
        if let ty::FnDef(..) = ty.kind() {
            return ("null".into(), named);
        }
        let is_str = matches!(ty.kind(), ty::Ref(_, inner, _) if inner.is_str());
        let val = match c.eval(tcx, env, rustc_span::DUMMY_SP) {
            Ok(v) => v,
            Err(_) => return ("null".into(), named),
        };
        if is_str {
            if let ConstValue::Slice { .. } | ConstValue::Indirect { .. } = val {
                if let Some(b) = val.try_get_slice_bytes_for_diagnostics(tcx) {
                    return (js(&String::from_utf8_lossy(b)), named);
                }
            }
            return ("null".into(), named);
        }
        // `&&str` (promoted references to string constants, e.g. the arguments of format_args!)
        if let ty::Ref(_, inner, _) = ty.kind() {
            if let ty::Ref(_, inner2, _) = inner.kind() {
                if inner2.is_str() {
                    if let ConstValue::Scalar(rustc_middle::mir::interpret::Scalar::Ptr(ptr, _)) = val {
                        let (prov, off) = ptr.prov_and_relative_offset();
                        let ind = ConstValue::Indirect { alloc_id: prov.alloc_id(), offset: off };
                        if let rustc_middle::mir::interpret::GlobalAlloc::Memory(_) =
                            tcx.global_alloc(prov.alloc_id())
                        {
                            if let Some(b) = ind.try_get_slice_bytes_for_diagnostics(tcx) {
                                return (js(&String::from_utf8_lossy(b)), named);
                            }
                        }
                    }
                    return ("null".into(), named);
                }
            }
        }
        // `&[u8; N]` (byte string literals and the compressed templates of format_args!)
        if let ty::Ref(_, inner, _) = ty.kind() {
            if let ty::Array(et, n) = inner.kind() {
                if *et == tcx.types.u8 {
                    if let (ConstValue::Scalar(rustc_middle::mir::interpret::Scalar::Ptr(ptr, _)), Some(n)) =
                        (val, n.try_to_target_usize(tcx))
                    {
                        let (prov, off) = ptr.prov_and_relative_offset();
                        if let rustc_middle::mir::interpret::GlobalAlloc::Memory(a) =
                            tcx.global_alloc(prov.alloc_id())
                        {
                            let a = a.inner();
                            let lo = off.bytes() as usize;
                            let hi = lo + n as usize;
                            if hi <= a.len() {
                                let b = a.inspect_with_uninit_and_ptr_outside_interpreter(lo..hi);
                                // lossless: one char per byte (Latin-1); the compressed format_args! templates
                                // carry placeholder opcodes >= 0x80 that a lossy UTF-8 decoding would destroy
                                let s: String = b.iter().map(|&x| x as char).collect();
                                return (js(&s), named);
                            }
                        }
                    }
                    return ("null".into(), named);
                }
            }
        }
        // fieldless enums, by value or behind one reference (promoted `&E::V` operands of derived PartialEq::eq):
        // the value is the variant's name
        {
            let (ety, by_ref) = match ty.kind() {
                ty::Ref(_, inner, _) => (*inner, true),
                _ => (ty, false),
            };
            if let ty::Adt(def, _) = ety.kind() {
                if def.is_enum() && !def.variants().is_empty() && def.variants().iter().all(|v| v.fields.is_empty()) {
                    let mut bits: Option<(u128, u64)> = None;
                    if by_ref {
                        if let ConstValue::Scalar(rustc_middle::mir::interpret::Scalar::Ptr(ptr, _)) = val {
                            if let Ok(layout) = tcx.layout_of(env.as_query_input(ety)) {
                                let n = layout.size.bytes() as usize;
                                let (prov, off) = ptr.prov_and_relative_offset();
                                if let rustc_middle::mir::interpret::GlobalAlloc::Memory(a) =
                                    tcx.global_alloc(prov.alloc_id())
                                {
                                    let a = a.inner();
                                    let lo = off.bytes() as usize;
                                    if n > 0 && n <= 16 && lo + n <= a.len() {
                                        let b = a.inspect_with_uninit_and_ptr_outside_interpreter(lo..lo + n);
                                        let mut v: u128 = 0;
                                        for (i, x) in b.iter().enumerate() {
                                            v |= (*x as u128) << (8 * i);
                                        }
                                        bits = Some((v, n as u64));
                                    }
                                }
                            }
                        }
                    } else if let Some(si) = val.try_to_scalar_int() {
                        let size = si.size();
                        bits = Some((si.to_bits(size), size.bytes()));
                    }
                    if let Some((v, n)) = bits {
                        let mask: u128 = if n >= 16 { u128::MAX } else { (1u128 << (8 * n)) - 1 };
                        for (idx, discr) in def.discriminants(tcx) {
                            if discr.val & mask == v & mask {
                                return (js(&def.variant(idx).name.to_string()), named);
                            }
                        }
                    }
                    return ("null".into(), named);
                }
            }
        }
        if ty.is_integral() || ty.is_bool() || ty.is_char() {
            if let Some(si) = val.try_to_scalar_int() {
                let size = si.size();
                let bits = si.to_bits(size);
                if ty.is_signed() {
                    let v = size.sign_extend(bits) as i128;
                    return (format!("{}", v), named);
                }
                if ty.is_bool() {
                    return ((if bits != 0 { "true" } else { "false" }).into(), named);
                }
                if bits > (i64::MAX as u128) {
                    // keep JSON integers exact: emit as string for huge values
                    return (format!("\"{}\"", bits), named);
                }
                return (format!("{}", bits), named);
            }
        }
        ("null".into(), named)
    }

    fn place_json(&self, body: &Body<'tcx>, p: &Place<'tcx>) -> String {
        self.placeref_json(body, p.as_ref())
    }

    fn placeref_json(&self, body: &Body<'tcx>, p: PlaceRef<'tcx>) -> String {
        let tcx = self.tcx;
        let mut o = String::new();
        let _ = write!(o, "[{}", p.local.as_usize());
        for (base, elem) in p.iter_projections() {
            o.push(',');
            match elem {
                ProjectionElem::Deref => o.push_str("\"*\""),
                ProjectionElem::Field(f, _fty) => {
                    let bt = base.ty(&body.local_decls, tcx);
                    let (name, adt) = match bt.ty.kind() {
                        ty::Adt(def, _) => {
                            let vi = bt.variant_index.unwrap_or(rustc_abi::FIRST_VARIANT);
                            let v = def.variant(vi);
                            let n = v
                                .fields
                                .get(f)
                                .map(|fd| fd.name.to_string())
                                .unwrap_or_else(|| f.as_usize().to_string());
                            (n, self.path(def.did()))
                        }
                        ty::Tuple(_) => (f.as_usize().to_string(), "()".to_string()),
                        ty::Closure(d, _) => {
                            let n = tcx
                                .closure_saved_names_of_captured_variables(*d)
                                .get(f)
                                .map(|s| s.to_string())
                                .unwrap_or_else(|| f.as_usize().to_string());
                            (n, format!("closure:{}", self.path(*d)))
                        }
                        _ => (f.as_usize().to_string(), "?".to_string()),
                    };
                    let _ = write!(o, "[\"f\",{},{},{}]", f.as_usize(), js(&name), js(&adt));
                }
                ProjectionElem::Index(l) => {
                    let _ = write!(o, "[\"i\",{}]", l.as_usize());
                }
                ProjectionElem::ConstantIndex { offset, from_end, .. } => {
                    let _ = write!(o, "[\"c\",{},{}]", offset, from_end);
                }
                ProjectionElem::Subslice { from, to, from_end } => {
                    let _ = write!(o, "[\"s\",{},{},{}]", from, to, from_end);
                }
                ProjectionElem::Downcast(name, vi) => {
                    let n = name.map(|s| s.to_string()).unwrap_or_default();
                    let _ = write!(o, "[\"d\",{},{}]", js(&n), vi.as_usize());
                }
                _ => o.push_str("[\"o\"]"),
            }
        }
        o.push(']');
        o
    }

    fn operand_json(&self, owner: DefId, body: &Body<'tcx>, op: &Operand<'tcx>) -> String {
        match op {
            Operand::Copy(p) => format!("[\"c\",{}]", self.place_json(body, p)),
            Operand::Move(p) => format!("[\"m\",{}]", self.place_json(body, p)),
            Operand::Constant(c) => {
                let ty = c.const_.ty();
                let (v, named) = self.const_val_json(owner, &c.const_);
                let mut fnp = "null".to_string();
                if let ty::FnDef(d, _) = ty.kind() {
                    fnp = js(&format!("{}|{}", self.path(*d), self.dpath(*d)));
                }
                if let ty::Closure(d, _) = ty.kind() {
                    fnp = js(&format!("{}|{}", self.path(*d), self.dpath(*d)));
                }
                format!(
                    "[\"k\",{},{},{},{}]",
                    js(&self.ty_str(ty)),
                    v,
                    named.map(|n| js(&n)).unwrap_or_else(|| "null".into()),
                    fnp
                )
            }
            #[allow(unreachable_patterns)]
            _ => "[\"o\"]".to_string(),
        }
    }

    fn rvalue_json(&self, owner: DefId, body: &Body<'tcx>, rv: &Rvalue<'tcx>) -> String {
        let tcx = self.tcx;
        match rv {
            Rvalue::Use(op, ..) => format!("[\"use\",{}]", self.operand_json(owner, body, op)),
            Rvalue::Repeat(op, _) => format!("[\"rep\",{}]", self.operand_json(owner, body, op)),
            Rvalue::Ref(_, bk, p) => {
                let m = matches!(bk, rustc_middle::mir::BorrowKind::Mut { .. });
                format!("[\"ref\",{},{}]", m, self.place_json(body, p))
            }
            Rvalue::RawPtr(_, p) => format!("[\"ptr\",{}]", self.place_json(body, p)),
            Rvalue::Cast(k, op, t) => format!(
                "[\"cast\",{},{},{}]",
                js(&format!("{:?}", k)),
                self.operand_json(owner, body, op),
                js(&self.ty_str(*t))
            ),
            Rvalue::BinaryOp(op, ab) => format!(
                "[\"bin\",{},{},{}]",
                js(&format!("{:?}", op)),
                self.operand_json(owner, body, &ab.0),
                self.operand_json(owner, body, &ab.1)
            ),
            Rvalue::UnaryOp(op, a) => format!(
                "[\"un\",{},{}]",
                js(&format!("{:?}", op)),
                self.operand_json(owner, body, a)
            ),
            Rvalue::Discriminant(p) => format!("[\"disc\",{}]", self.place_json(body, p)),
            Rvalue::CopyForDeref(p) => format!("[\"cfd\",{}]", self.place_json(body, p)),
            Rvalue::Aggregate(kind, ops) => {
                let (k, name, variant) = match &**kind {
                    AggregateKind::Array(_) => ("array", String::new(), String::new()),
                    AggregateKind::Tuple => ("tuple", String::new(), String::new()),
                    AggregateKind::Adt(d, vi, _, _, _) => {
                        let def = tcx.adt_def(*d);
                        ("adt", self.path(*d), def.variant(*vi).name.to_string())
                    }
                    AggregateKind::Closure(d, _) => ("closure", self.path(*d), String::new()),
                    AggregateKind::Coroutine(d, _) => ("coroutine", self.path(*d), String::new()),
                    _ => ("other", String::new(), String::new()),
                };
                let mut o = format!("[\"agg\",{},{},{},[", js(k), js(&name), js(&variant));
                for (i, op) in ops.iter().enumerate() {
                    if i > 0 {
                        o.push(',');
                    }
                    o.push_str(&self.operand_json(owner, body, op));
                }
                o.push_str("]]");
                o
            }
            other => format!("[\"other\",{}]", js(&format!("{:?}", other))),
        }
    }

    fn unwind_json(&self, u: &UnwindAction) -> String {
        match u {
            UnwindAction::Cleanup(b) => format!("{}", b.as_usize()),
            _ => "null".into(),
        }
    }

    fn callee_json(&self, owner: DefId, func: &Operand<'tcx>, body: &Body<'tcx>) -> String {
        let tcx = self.tcx;
        if let Operand::Constant(c) = func {
            if let ty::FnDef(d, args) = c.const_.ty().kind() {
                let d = *d;
                let p = self.path(d);
                let pa = rustc_middle::ty::print::with_no_trimmed_paths!(
                    rustc_middle::ty::print::with_resolve_crate_name!(
                        tcx.def_path_str_with_args(d, args)
                    )
                );
                let mut o = format!("{{\"p\":{},\"pa\":{},\"dk\":{}", js(&p), js(&pa), js(&self.dpath(d)));
                // trait method? remember the trait
                if matches!(tcx.def_kind(d), DefKind::AssocFn) {
                    if let Some(tr) = tcx.trait_of_assoc(d) {
                        let _ = write!(o, ",\"tr\":{}", js(&self.path(tr)));
                        if !args.is_empty() {
                            if let Some(st) = args.get(0).and_then(|a| a.as_type()) {
                                let _ = write!(o, ",\"self\":{}", js(&self.ty_str(st)));
                            }
                        }
                    } else if let Some(im) = tcx.impl_of_assoc(d) {
                        let st = tcx.type_of(im).instantiate(tcx, args).skip_norm_wip();
                        let _ = write!(o, ",\"self\":{}", js(&self.ty_str(st)));
                    }
                }
                let env = TypingEnv::post_analysis(tcx, owner);
                let resolvable = matches!(tcx.def_kind(d), DefKind::Fn | DefKind::AssocFn);
                if resolvable {
                    if let Ok(Some(inst)) = Instance::try_resolve(tcx, env, d, args) {
                        let rd = inst.def_id();
                        if rd != d {
                            let _ = write!(o, ",\"r\":{},\"rdk\":{}", js(&self.path(rd)), js(&self.dpath(rd)));
                        }
                        let _ = write!(o, ",\"res\":true");
                    }
                }
                o.push('}');
                return o;
            }
        }
        // indirect call (fn pointer / closure value through FnOnce::call_once is a FnDef, so this
        // is only fn pointers)
        let t = func.ty(&body.local_decls, tcx);
        format!("{{\"p\":null,\"ind\":{}}}", js(&self.ty_str(t)))
    }

    fn body_json(&self, did: DefId, out: &mut String) {
        let tcx = self.tcx;
        let body: &Body<'tcx> = tcx.optimized_mir(did);
        let kind = tcx.def_kind(did);
        let sm = tcx.sess.source_map();
        let sp = body.span;
        let lo = sm.lookup_char_pos(sp.lo());
        let hi = sm.lookup_char_pos(sp.hi());
        let file = match &lo.file.name {
            rustc_span::FileName::Real(r) => r
                .local_path()
                .map(|p| p.to_string_lossy().to_string())
                .unwrap_or_else(|| format!("{:?}", r)),
            other => format!("{:?}", other),
        };
        let _ = write!(
            out,
            "{{\"t\":\"body\",\"path\":{},\"dp\":{},\"kind\":{},\"file\":{},\"lo\":{},\"hi\":{},\"nargs\":{}",
            js(&self.path(did)),
            js(&self.dpath(did)),
            js(&format!("{:?}", kind)),
            js(&file),
            lo.line,
            hi.line,
            body.arg_count
        );
        let (_, macs) = self.span_info(sp);
        if !macs.is_empty() {
            let _ = write!(out, ",\"mac\":{}", js(&macs));
        }
        if let Some(l) = did.as_local() {
            let m = tcx.parent_module_from_def_id(l).to_def_id();
            let _ = write!(out, ",\"mod\":{}", js(&self.path(m)));
        }
        if matches!(kind, DefKind::Closure) {
            let parent = tcx.parent(did);
            let _ = write!(out, ",\"parent\":{}", js(&self.path(parent)));
        }
        if matches!(kind, DefKind::Fn | DefKind::AssocFn) {
            let vis = tcx.visibility(did);
            let v = if vis.is_public() { "pub" } else { "restricted" };
            let _ = write!(out, ",\"vis\":{}", js(v));
        }
        if matches!(kind, DefKind::AssocFn) {
            if let Some(im) = tcx.impl_of_assoc(did) {
                let st = tcx.type_of(im).instantiate_identity().skip_norm_wip();
                let _ = write!(out, ",\"self_ty\":{}", js(&self.ty_str(st)));
                if let Some(tr) = tcx.impl_opt_trait_ref(im) {
                    let tr = tr.instantiate_identity().skip_norm_wip();
                    let _ = write!(out, ",\"impl_trait\":{}", js(&self.path(tr.def_id)));
                }
                if let Some(ti) = tcx.trait_item_of(did) {
                    let _ = write!(out, ",\"trait_item\":{}", js(&self.path(ti)));
                }
            } else if let Some(tr) = tcx.trait_of_assoc(did) {
                let _ = write!(out, ",\"in_trait\":{}", js(&self.path(tr)));
            }
        }
        // locals
        out.push_str(",\"locals\":[");
        let mut names: Vec<Option<String>> = vec![None; body.local_decls.len()];
        for vdi in &body.var_debug_info {
            if let rustc_middle::mir::VarDebugInfoContents::Place(p) = &vdi.value {
                if p.projection.is_empty() {
                    names[p.local.as_usize()] = Some(vdi.name.to_string());
                }
            }
        }
        for (i, ld) in body.local_decls.iter().enumerate() {
            if i > 0 {
                out.push(',');
            }
            let _ = write!(
                out,
                "[{},{}]",
                js(&self.ty_str(ld.ty)),
                names[i].as_ref().map(|n| js(n)).unwrap_or_else(|| "null".into())
            );
        }
        out.push(']');
        // debug info for upvars / projections (name -> place)
        out.push_str(",\"dbg\":[");
        let mut first = true;
        for vdi in &body.var_debug_info {
            if let rustc_middle::mir::VarDebugInfoContents::Place(p) = &vdi.value {
                if !p.projection.is_empty() {
                    if !first {
                        out.push(',');
                    }
                    first = false;
                    let _ = write!(out, "[{},{}]", js(&vdi.name.to_string()), self.place_json(body, p));
                }
            }
        }
        out.push(']');
        out.push_str(",\"blocks\":[");
        for (bi, bb) in body.basic_blocks.iter().enumerate() {
            if bi > 0 {
                out.push(',');
            }
            out.push_str("{\"s\":[");
            let mut firsts = true;
            for st in &bb.statements {
                let s = match &st.kind {
                    StatementKind::Assign(b) => {
                        let (p, rv) = &**b;
                        let (line, macs) = self.span_info(st.source_info.span);
                        Some(format!(
                            "[\"a\",{},{},{},{}]",
                            self.place_json(body, p),
                            self.rvalue_json(did, body, rv),
                            line,
                            js(&macs)
                        ))
                    }
                    StatementKind::SetDiscriminant { place, variant_index } => Some(format!(
                        "[\"sd\",{},{}]",
                        self.place_json(body, place),
                        variant_index.as_usize()
                    )),
                    _ => None,
                };
                if let Some(s) = s {
                    if !firsts {
                        out.push(',');
                    }
                    firsts = false;
                    out.push_str(&s);
                }
            }
            out.push_str("],\"t\":");
            let term = bb.terminator();
            let (line, macs) = self.span_info(term.source_info.span);
            let t = |b: &BasicBlock| b.as_usize();
            let tj = match &term.kind {
                TerminatorKind::Goto { target } => format!("[\"goto\",{}]", t(target)),
                TerminatorKind::SwitchInt { discr, targets } => {
                    let mut o = format!("[\"switch\",{},[", self.operand_json(did, body, discr));
                    for (i, (v, b)) in targets.iter().enumerate() {
                        if i > 0 {
                            o.push(',');
                        }
                        if v > i64::MAX as u128 {
                            let _ = write!(o, "[\"{}\",{}]", v, b.as_usize());
                        } else {
                            let _ = write!(o, "[{},{}]", v, b.as_usize());
                        }
                    }
                    let _ = write!(o, "],{}]", targets.otherwise().as_usize());
                    o
                }
                TerminatorKind::Return => "[\"ret\"]".to_string(),
                TerminatorKind::Unreachable => "[\"unreach\"]".to_string(),
                TerminatorKind::UnwindResume => "[\"resume\"]".to_string(),
                TerminatorKind::UnwindTerminate(_) => "[\"abort\"]".to_string(),
                TerminatorKind::Drop { place, target, unwind, .. } => format!(
                    "[\"drop\",{},{},{}]",
                    self.place_json(body, place),
                    t(target),
                    self.unwind_json(unwind)
                ),
                TerminatorKind::Call { func, args, destination, target, unwind, fn_span, .. } => {
                    let mut o = format!("[\"call\",{},[", self.callee_json(did, func, body));
                    for (i, a) in args.iter().enumerate() {
                        if i > 0 {
                            o.push(',');
                        }
                        o.push_str(&self.operand_json(did, body, &a.node));
                    }
                    let (fl, _) = self.span_info(*fn_span);
                    let _ = write!(
                        o,
                        "],{},{},{},{}]",
                        self.place_json(body, destination),
                        target.map(|b| b.as_usize().to_string()).unwrap_or_else(|| "null".into()),
                        self.unwind_json(unwind),
                        fl
                    );
                    o
                }
                TerminatorKind::TailCall { func, args, .. } => {
                    let mut o = format!("[\"tailcall\",{},[", self.callee_json(did, func, body));
                    for (i, a) in args.iter().enumerate() {
                        if i > 0 {
                            o.push(',');
                        }
                        o.push_str(&self.operand_json(did, body, &a.node));
                    }
                    o.push_str("]]");
                    o
                }
                TerminatorKind::Assert { cond, expected, msg, target, unwind } => {
                    let k = format!("{:?}", msg);
                    let k = k.split(|c: char| !c.is_alphanumeric()).next().unwrap_or("").to_string();
                    format!(
                        "[\"assert\",{},{},{},{},{}]",
                        self.operand_json(did, body, cond),
                        expected,
                        js(&k),
                        t(target),
                        self.unwind_json(unwind)
                    )
                }
                TerminatorKind::FalseEdge { real_target, .. } => format!("[\"goto\",{}]", t(real_target)),
                TerminatorKind::FalseUnwind { real_target, .. } => {
                    format!("[\"goto\",{}]", t(real_target))
                }
                other => format!("[\"other\",{}]", js(&format!("{:?}", other))),
            };
            out.push_str(&tj);
            let _ = write!(out, ",\"l\":{}", line);
            if !macs.is_empty() {
                let _ = write!(out, ",\"m\":{}", js(&macs));
            }
            if bb.is_cleanup {
                out.push_str(",\"c\":1");
            }
            out.push('}');
        }
        out.push_str("]}\n");
    }

    fn adt_json(&self, did: DefId, out: &mut String) {
        let tcx = self.tcx;
        let def = tcx.adt_def(did);
        let kind = if def.is_enum() {
            "enum"
        } else if def.is_union() {
            "union"
        } else {
            "struct"
        };
        let _ = write!(out, "{{\"t\":\"adt\",\"path\":{},\"kind\":{},\"variants\":[", js(&self.path(did)), js(kind));
        for (i, v) in def.variants().iter().enumerate() {
            if i > 0 {
                out.push(',');
            }
            let _ = write!(out, "{{\"name\":{},\"fields\":[", js(&v.name.to_string()));
            for (j, f) in v.fields.iter().enumerate() {
                if j > 0 {
                    out.push(',');
                }
                let raw = tcx.type_of(f.did).instantiate_identity().skip_norm_wip();
                // evaluate constant expressions in the type (array lengths such as `MAX_K + 1`) where that is possible
                let fty = tcx
                    .try_normalize_erasing_regions(
                        TypingEnv::post_analysis(tcx, did),
                        tcx.type_of(f.did).instantiate_identity(),
                    )
                    .unwrap_or(raw);
                let _ = write!(out, "[{},{}]", js(&f.name.to_string()), js(&self.ty_str(fty)));
            }
            out.push_str("]}");
        }
        out.push_str("]}\n");
    }

    /// the elements of a `&[&str]` constant, read from the constant's allocation: each element is a (pointer, length)
    /// pair whose pointer carries the provenance of the string's allocation
    fn str_slice_json(&self, did: DefId) -> Option<String> {
        use rustc_middle::mir::interpret::{GlobalAlloc, Scalar};
        let tcx = self.tcx;
        let env = TypingEnv::post_analysis(tcx, did);
        let c = Const::from_unevaluated(tcx, did).instantiate_identity().skip_norm_wip();
        let val = c.eval(tcx, env, rustc_span::DUMMY_SP).ok()?;
        let (aid, start, n) = match val {
            ConstValue::Slice { alloc_id, meta } => (alloc_id, 0usize, meta as usize),
            ConstValue::Indirect { alloc_id, offset } => {
                // a place holding the fat pointer itself
                let GlobalAlloc::Memory(a) = tcx.global_alloc(alloc_id) else { return None };
                let a = a.inner();
                let o = offset.bytes() as usize;
                let prov = a.provenance().ptrs().get(&rustc_abi::Size::from_bytes(o as u64))?;
                let raw = a.inspect_with_uninit_and_ptr_outside_interpreter(o..o + 16);
                let rel = u64::from_le_bytes(raw[0..8].try_into().ok()?) as usize;
                let len = u64::from_le_bytes(raw[8..16].try_into().ok()?) as usize;
                (prov.alloc_id(), rel, len)
            }
            ConstValue::Scalar(Scalar::Ptr(..)) | _ => return None,
        };
        let GlobalAlloc::Memory(a) = tcx.global_alloc(aid) else { return None };
        let a = a.inner();
        let mut o = String::from("[");
        for i in 0..n {
            let off = start + i * 16;
            if off + 16 > a.len() {
                return None;
            }
            let prov = a.provenance().ptrs().get(&rustc_abi::Size::from_bytes(off as u64))?;
            let raw = a.inspect_with_uninit_and_ptr_outside_interpreter(off..off + 16);
            let rel = u64::from_le_bytes(raw[0..8].try_into().ok()?) as usize;
            let len = u64::from_le_bytes(raw[8..16].try_into().ok()?) as usize;
            let GlobalAlloc::Memory(sa) = tcx.global_alloc(prov.alloc_id()) else { return None };
            let sa = sa.inner();
            if rel + len > sa.len() {
                return None;
            }
            let b = sa.inspect_with_uninit_and_ptr_outside_interpreter(rel..rel + len);
            if i > 0 {
                o.push(',');
            }
            o.push_str(&js(&String::from_utf8_lossy(b)));
        }
        o.push(']');
        Some(o)
    }

    fn const_item_json(&self, did: DefId, out: &mut String) {
        let tcx = self.tcx;
        let ty = tcx.type_of(did).instantiate_identity().skip_norm_wip();
        let is_str = matches!(ty.kind(), ty::Ref(_, inner, _) if inner.is_str());
        if tcx.generics_of(did).requires_monomorphization(tcx) {
            return;
        }
        // `&[&str]` string tables (keyword lists and the like): val is the list of strings
        let is_str_slice = matches!(ty.kind(), ty::Ref(_, inner, _)
            if matches!(inner.kind(), ty::Slice(e) if matches!(e.kind(), ty::Ref(_, s, _) if s.is_str())));
        if is_str_slice {
            if let Some(v) = self.str_slice_json(did) {
                let _ = writeln!(
                    out,
                    "{{\"t\":\"const\",\"path\":{},\"dp\":{},\"ty\":{},\"val\":{}}}",
                    js(&self.path(did)),
                    js(&self.dpath(did)),
                    js(&self.ty_str(ty)),
                    v
                );
            }
            return;
        }
        if !(ty.is_integral() || ty.is_bool() || ty.is_char() || is_str) {
            return;
        }
        let c = Const::from_unevaluated(tcx, did).instantiate_identity().skip_norm_wip();
        let (v, _) = self.const_val_json(did, &c);
        let _ = writeln!(
            out,
            "{{\"t\":\"const\",\"path\":{},\"dp\":{},\"ty\":{},\"val\":{}}}",
            js(&self.path(did)),
            js(&self.dpath(did)),
            js(&self.ty_str(ty)),
            v
        );
    }
}

struct Cb {
    emit_link: bool,
}

impl rustc_driver::Callbacks for Cb {
    fn after_analysis<'tcx>(
        &mut self,
        _c: &rustc_interface::interface::Compiler,
        tcx: TyCtxt<'tcx>,
    ) -> Compilation {
        let Ok(outdir) = std::env::var("FACTGEN_OUT") else {
            return Compilation::Continue;
        };
        if self.emit_link {
            return Compilation::Continue;
        }
        let krate = tcx.crate_name(LOCAL_CRATE).to_string();
        if let Ok(list) = std::env::var("FACTGEN_CRATES") {
            if !list.split(',').any(|c| c == krate) {
                return Compilation::Continue;
            }
        }
        if krate.starts_with("build_script") {
            return Compilation::Continue;
        }
        let cx = Cx { tcx };
        let mut out = String::new();
        let _ = writeln!(out, "{{\"t\":\"crate\",\"name\":{}}}", js(&krate));
        let (mut nb, mut na, mut nc) = (0usize, 0usize, 0usize);
        let items = tcx.hir_crate_items(());
        for id in items.definitions() {
            let did = id.to_def_id();
            match tcx.def_kind(did) {
                DefKind::Struct | DefKind::Enum | DefKind::Union => {
                    cx.adt_json(did, &mut out);
                    na += 1;
                }
                DefKind::Const { .. } | DefKind::Static { .. } | DefKind::AssocConst { .. } => {
                    cx.const_item_json(did, &mut out);
                    nc += 1;
                }
                _ => {}
            }
        }
        for ldid in tcx.mir_keys(()) {
            let did = ldid.to_def_id();
            let dk = tcx.def_kind(did);
            if !matches!(dk, DefKind::Fn | DefKind::AssocFn | DefKind::Closure) {
                continue;
            }
            if tcx.is_constructor(did) {
                continue;
            }
            cx.body_json(did, &mut out);
            nb += 1;
        }
        let _ = writeln!(out, "{{\"t\":\"end\",\"bodies\":{},\"adts\":{},\"consts\":{}}}", nb, na, nc);
        let is_bin = tcx
            .crate_types()
            .iter()
            .any(|t| matches!(t, rustc_session::config::CrateType::Executable));
        let fin = format!("{}/{}.{}.jsonl", outdir, krate, if is_bin { "bin" } else { "lib" });
        let tmp = format!("{}/.{}.{}.tmp", outdir, krate, std::process::id());
        std::fs::write(&tmp, out).expect("factgen: cannot write facts");
        std::fs::rename(&tmp, &fin).expect("factgen: cannot rename facts");
        eprintln!("FACTGEN crate={} bodies={} adts={} consts={}", krate, nb, na, nc);
        Compilation::Continue
    }
}

fn main() {
    // RUSTC_WORKSPACE_WRAPPER passes: argv[0]=wrapper, argv[1]=path to rustc, rest = rustc args.
    let mut a = vec!["rustc".to_string()];
    a.extend(std::env::args().skip(2));
    let emit_link = a.iter().any(|x| x.starts_with("--emit") && x.contains("link"))
        || a.windows(2).any(|w| w[0] == "--emit" && w[1].contains("link"));
    rustc_driver::run_compiler(&a, &mut Cb { emit_link });
}
