#!/usr/bin/env python3
"""debug helper: ./tools_dump.py <path regex> [crate]  -> prints MIR facts of matching bodies"""
import sys, glob, json, os
sys.path.insert(0, os.path.dirname(os.path.abspath(__file__)))
from pv.facts import Facts
from pv import factcache
d, h, g, s = factcache.ensure()
f = Facts(d)
import re
for b in f.bodies:
    if re.search(sys.argv[1], b.path) and (len(sys.argv) < 3 or b.crate == sys.argv[2]):
        print("==", b.crate, b.path, b.file, b.lo, b.hi, "nargs", b.nargs)
        for i, (t, n) in enumerate(b.locals):
            if n: print("   _%d %s: %s" % (i, n, t))
        for i, blk in enumerate(b.blocks):
            print(" bb%d%s:" % (i, " (cleanup)" if blk.get("c") else ""))
            for s_ in blk["s"]:
                print("    ", json.dumps(s_)[:400])
            print("    T", json.dumps(blk["t"])[:600], blk.get("l"), blk.get("m", ""))
