# Seeded one-line mutations used by the thorough tier to test each rule "the other way".
# mut(property, rule expected to fire, name, file, old text, new text)
PT = RT + "parser/parser_types.rs"
LRT = RT + "lr_parser/parser_types.rs"

# ---- C01
mut("C01", "R01.1", "drop-error-list-test", PT,
    "        if !self.error_entries.is_empty() {\n            return Err(ParserError::SyntaxErrors {",
    "        if self.error_entries.len() > 1 {\n            return Err(ParserError::SyntaxErrors {")
mut("C01", "R01.1", "ignore-unconsumed-input", PT,
    "        if !stream.borrow().all_input_consumed() {", "        if false && !stream.borrow().all_input_consumed() {")
mut("C01", "R01.2", "any-single-terminal-accepts", PT,
    "matches!(self.parser_stack.stack[..], [] | [ParseType::T(0)])",
    "matches!(self.parser_stack.stack[..], [] | [ParseType::T(_)])")
mut("C01", "R01.3", "clear-errors-after-recovery", PT,
    "            trace!(\"Sync with {expected_token_types:?}\");",
    "            trace!(\"Sync with {expected_token_types:?}\");\n            self.error_entries.clear();")
mut("C01", "R01.4", "left-recursion-gate-off", PA + "generators/grammar_trans.rs",
    "    if !left_recursions.is_empty() {", "    if left_recursions.len() > 1 {")
# ---- C02
mut("C02", "R02.2", "marker-after-symbols", PT,
    "        self.parser_stack.stack.push(ParseType::E(prod_num));\n        for s in self.productions[prod_num].production {\n            self.parser_stack.stack.push(*s);\n        }",
    "        for s in self.productions[prod_num].production {\n            self.parser_stack.stack.push(*s);\n        }\n        self.parser_stack.stack.push(ParseType::E(prod_num));")
mut("C02", "R02.3", "children-off-by-one", PT,
    "            .split_off(self.parse_tree_stack.len() - l);", "            .split_off(self.parse_tree_stack.len() + 1 - l);")
mut("C02", "R02.2", "reverse-symbols", PT,
    "        for s in self.productions[prod_num].production {", "        for s in self.productions[prod_num].production.iter().rev() {")
mut("C02", "R02.4", "extra-tree-push", PT,
    "                            self.parser_stack.stack.pop();\n                            self.push_production(tree_builder, prod_num)?;\n                        }\n                        Err(source) => {",
    "                            self.parser_stack.stack.pop();\n                            self.parse_tree_stack.push(ParseTreeType::N(\"\"));\n                            self.push_production(tree_builder, prod_num)?;\n                        }\n                        Err(source) => {")
# ---- C08
mut("C08", "R08.1", "remove-transition-taken-break", RT + "parser/lookahead_dfa.rs",
    "            if !transition_taken {\n                // No transition exists for the current lookahead token: never skip over it.\n                break;\n            }",
    "")
mut("C08", "R08.3", "default-production", RT + "parser/lookahead_dfa.rs",
    "        if prod_num > INVALID_PROD {\n            // The state is accepting", "        if prod_num >= INVALID_PROD {\n            // The state is accepting")
# ---- C11
mut("C11", "R11.1", "unreachable-check-weakened", PA + "generators/grammar_trans.rs",
    "    if !unreachable.is_empty() {", "    if unreachable.len() > 1 {")
mut("C11", "R11.1", "nonproductive-names-wrong-set", PA + "generators/grammar_trans.rs",
    "        let non_terminals = non_productive\n            .iter()", "        let non_terminals = unreachable_to_ignore\n            .iter()")
# ---- C12
mut("C12", "R12.1", "skip-rhs-scan", PA + "transformation/lr_augmentation.rs",
    "    if start_symbol_production_count == 1 && !start_symbol_is_used_on_rhs {", "    if start_symbol_production_count == 1 {")
mut("C12", "R12.2", "insert-at-end", PA + "transformation/lr_augmentation.rs",
    "    new_cfg.pr.insert(\n        0,", "    new_cfg.pr.insert(\n        new_cfg.pr.len(),")
# ---- C17
mut("C17", "R17.1", "lr-raw-skip-predicate", LRT,
    "            LRParseTree::Terminal(t) => !t.is_effectively_skip_token(),", "            LRParseTree::Terminal(t) => !t.is_skip_token(),")
mut("C17", "R17.3", "comment-behind-trim", PT,
    "                if !self.trim_parse_tree {\n                    tree_builder.add_token(&t)?;\n                }\n                if t.is_comment_token() {\n                    user_actions.on_comment(t);\n                }",
    "                if !self.trim_parse_tree {\n                    tree_builder.add_token(&t)?;\n                    if t.is_comment_token() {\n                        user_actions.on_comment(t);\n                    }\n                }")
mut("C17", "R17.2", "flag-after-buffering", RT + "lexer/token_stream.rs",
    "            token.set_state_skip(self.is_state_skip_token(token.token_type, scanner_state));\n",
    "            token.set_state_skip(self.is_state_skip_token(token.token_type, 0));\n")
# ---- C18
mut("C18", "R18.1", "ignore-lookahead-in-key", PA + "grammar/cfg.rs",
    "                .position(|(t0, k0, l0)| t == t0 && k.behaves_like(*k0) && l0 == l)",
    "                .position(|(t0, k0, _l0)| t == t0 && k.behaves_like(*k0))")
mut("C18", "R18.1", "kind-by-equality", PA + "generators/parser_model.rs",
    "            .position(|(t, knd, look, _)| *t == tr && knd.behaves_like(k) && look == l)",
    "            .position(|(t, knd, look, _)| *t == tr && *knd == k && look == l)")
# ---- C19
mut("C19", "R19.1", "no-duplicate-check", PT,
    "            .any(|e| e.error_location == error.error_location)\n        {", "            .any(|e| e.error_location == error.error_location)\n            && false\n        {")
mut("C19", "R19.2", "new-unwrap-on-parse-path", PT,
    "        let lookahead_dfa = &self.lookahead_automata[non_terminal];", "        let lookahead_dfa = self.lookahead_automata.get(non_terminal).unwrap();")
# ---- C20
mut("C20", "R20.1", "trim-controls-tree-stack", PT,
    "                            if !self.trim_parse_tree {\n                                tree_builder.add_token(&token)?;\n                            }\n                            self.parse_tree_stack.push(ParseTreeType::T(token));",
    "                            if !self.trim_parse_tree {\n                                tree_builder.add_token(&token)?;\n                                self.parse_tree_stack.push(ParseTreeType::T(token.clone()));\n                            } else {\n                                self.parse_tree_stack.push(ParseTreeType::T(token));\n                                self.production_depth += 0;\n                            }")
mut("C20", "R20.2", "recovery-edit-before-enabled-test", PT,
    "        if !self.is_recovery_enabled() {\n            return Err(ParserError::RecoveryFailed.into());\n        }\n        stream.borrow_mut().enter_recovery_mode();\n        stream.borrow_mut().ensure_buffer()?;",
    "        stream.borrow_mut().enter_recovery_mode();\n        if !self.is_recovery_enabled() {\n            return Err(ParserError::RecoveryFailed.into());\n        }\n        stream.borrow_mut().ensure_buffer()?;")
mut("C20", "R20.3", "depth-unpaired", PT,
    "                        if !self.productions[p].is_push_production {\n                            self.production_depth -= 1;",
    "                        if self.productions[p].is_push_production {\n                            self.production_depth -= 1;")
# ---- C24
mut("C24", "R24.1", "hashset-to-vec", PA + "analysis/left_recursion.rs",
    "    can_start_with.iter().fold(Vec::new(), |mut acc, (k, v)| {\n        if v.contains(k) {\n            acc.push(k.to_owned());\n        }\n        acc\n    })",
    "    can_start_with.iter().fold(Vec::new(), |mut acc, (k, v)| {\n        if v.contains(k) {\n            acc.extend(v.iter().filter(|x| *x == k).cloned().collect::<Vec<String>>());\n        }\n        acc\n    })")
# ---- C25
mut("C25", "R25.2", "auto-ws-polarity", PA + "conversions/par/grammar_to_par.rs",
    "    if !scanner_config.auto_ws {", "    if scanner_config.auto_ws {")
mut("C25", "R25.1", "member-name-dropped", PA + "grammar/symbol.rs",
    "            Self::N(n, a, u, m) => {\n                let mut s = String::new();\n                a.decorate(&mut s, n)\n                    .map_err(|e| anyhow!(\"Decorate error!: {}\", e))?;\n                if let Some(member) = m {\n                    write!(s, \"@{member}\").map_err(|e| anyhow!(\"IO error!: {}\", e))?;\n                }",
    "            Self::N(n, a, u, _m) => {\n                let mut s = String::new();\n                a.decorate(&mut s, n)\n                    .map_err(|e| anyhow!(\"Decorate error!: {}\", e))?;")
# ---- C29
mut("C29", "R29.2", "publish-from-close", LS + "server.rs",
    "    pub(crate) fn handle_close_document(", "    #[allow(dead_code)]\n    pub(crate) fn republish(&self, connection: Arc<lsp_server::Connection>, uri: Uri) {\n        let _ = Self::notify_analysis_ok(connection, uri, 0);\n    }\n\n    pub(crate) fn handle_close_document(")
