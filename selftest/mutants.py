# Seeded one-line mutations used by the thorough tier to test each rule "the other way".
# mut(property, rule expected to fire, name, file, old text, new text)
PT = RT + "parser/parser_types.rs"
LRT = RT + "lr_parser/parser_types.rs"

# ---- C01
mut("C01", "R01.1", "drop-error-list-test", PT,
    "        if !self.error_entries.is_empty() {\n            return Err(ParserError::SyntaxErrors {",
    "        if self.error_entries.len() > 1 {\n            return Err(ParserError::SyntaxErrors {")
mut("C01", "R01.1", "ignore-unconsumed-input", PT,
    "        if !stream.borrow().all_input_consumed() {", "        if false && !stream.borrow().all_input_consumed() {")
mut("C01", "R01.2", "any-single-terminal-accepts", PT,
    "matches!(self.parser_stack.stack[..], [] | [ParseType::T(0)])",
    "matches!(self.parser_stack.stack[..], [] | [ParseType::T(_)])")
mut("C01", "R01.3", "clear-errors-after-recovery", PT,
    "            trace!(\"Sync with {expected_token_types:?}\");",
    "            trace!(\"Sync with {expected_token_types:?}\");\n            self.error_entries.clear();")
mut("C01", "R01.4", "left-recursion-gate-off", PA + "generators/grammar_trans.rs",
    "    if !left_recursions.is_empty() {", "    if left_recursions.len() > 1 {")
# ---- C02
mut("C02", "R02.2", "marker-after-symbols", PT,
    "        self.parser_stack.stack.push(ParseType::E(prod_num));\n        for s in self.productions[prod_num].production {\n            self.parser_stack.stack.push(*s);\n        }",
    "        for s in self.productions[prod_num].production {\n            self.parser_stack.stack.push(*s);\n        }\n        self.parser_stack.stack.push(ParseType::E(prod_num));")
mut("C02", "R02.3", "children-off-by-one", PT,
    "            .split_off(self.parse_tree_stack.len() - l);", "            .split_off(self.parse_tree_stack.len() + 1 - l);")
mut("C02", "R02.2", "reverse-symbols", PT,
    "        for s in self.productions[prod_num].production {", "        for s in self.productions[prod_num].production.iter().rev() {")
mut("C02", "R02.4", "extra-tree-push", PT,
    "                            self.parser_stack.stack.pop();\n                            self.push_production(tree_builder, prod_num)?;\n                        }\n                        Err(source) => {",
    "                            self.parser_stack.stack.pop();\n                            self.parse_tree_stack.push(ParseTreeType::N(\"\"));\n                            self.push_production(tree_builder, prod_num)?;\n                        }\n                        Err(source) => {")
# ---- C08
mut("C08", "R08.1", "remove-transition-taken-break", RT + "parser/lookahead_dfa.rs",
    "            if !transition_taken {\n                // No transition exists for the current lookahead token: never skip over it.\n                break;\n            }",
    "")
mut("C08", "R08.3", "default-production", RT + "parser/lookahead_dfa.rs",
    "        if prod_num > INVALID_PROD {\n            // The state is accepting", "        if prod_num >= INVALID_PROD {\n            // The state is accepting")
# ---- C11
mut("C11", "R11.1", "unreachable-check-weakened", PA + "generators/grammar_trans.rs",
    "    if !unreachable.is_empty() {", "    if unreachable.len() > 1 {")
mut("C11", "R11.1", "nonproductive-names-wrong-set", PA + "generators/grammar_trans.rs",
    "        let non_terminals = non_productive\n            .iter()", "        let non_terminals = unreachable_to_ignore\n            .iter()")
# ---- C12
mut("C12", "R12.1", "skip-rhs-scan", PA + "transformation/lr_augmentation.rs",
    "    if start_symbol_production_count == 1 && !start_symbol_is_used_on_rhs {", "    if start_symbol_production_count == 1 {")
mut("C12", "R12.2", "insert-at-end", PA + "transformation/lr_augmentation.rs",
    "    new_cfg.pr.insert(\n        0,", "    new_cfg.pr.insert(\n        new_cfg.pr.len(),")
# ---- C17
mut("C17", "R17.1", "lr-raw-skip-predicate", LRT,
    "            LRParseTree::Terminal(t) => !t.is_effectively_skip_token(),", "            LRParseTree::Terminal(t) => !t.is_skip_token(),")
mut("C17", "R17.3", "comment-behind-trim", PT,
    "                if !self.trim_parse_tree {\n                    tree_builder.add_token(&t)?;\n                }\n                if t.is_comment_token() {\n                    user_actions.on_comment(t);\n                }",
    "                if !self.trim_parse_tree {\n                    tree_builder.add_token(&t)?;\n                    if t.is_comment_token() {\n                        user_actions.on_comment(t);\n                    }\n                }")
mut("C17", "R17.2", "flag-after-buffering", RT + "lexer/token_stream.rs",
    "            token.set_state_skip(self.is_state_skip_token(token.token_type, scanner_state));\n",
    "            token.set_state_skip(self.is_state_skip_token(token.token_type, 0));\n")
# ---- C18
mut("C18", "R18.1", "ignore-lookahead-in-key", PA + "grammar/cfg.rs",
    "                .position(|(t0, k0, l0)| t == t0 && k.behaves_like(*k0) && l0 == l)",
    "                .position(|(t0, k0, _l0)| t == t0 && k.behaves_like(*k0))")
mut("C18", "R18.1", "kind-by-equality", PA + "generators/parser_model.rs",
    "            .position(|(t, knd, look, _)| *t == tr && knd.behaves_like(k) && look == l)",
    "            .position(|(t, knd, look, _)| *t == tr && *knd == k && look == l)")
# ---- C19
mut("C19", "R19.1", "no-duplicate-check", PT,
    "            .any(|e| e.error_location == error.error_location)\n        {", "            .any(|e| e.error_location == error.error_location)\n            && false\n        {")
mut("C19", "R19.2", "new-unwrap-on-parse-path", PT,
    "        let lookahead_dfa = &self.lookahead_automata[non_terminal];", "        let lookahead_dfa = self.lookahead_automata.get(non_terminal).unwrap();")
# ---- C20
mut("C20", "R20.1", "trim-controls-tree-stack", PT,
    "                            if !self.trim_parse_tree {\n                                tree_builder.add_token(&token)?;\n                            }\n                            self.parse_tree_stack.push(ParseTreeType::T(token));",
    "                            if !self.trim_parse_tree {\n                                tree_builder.add_token(&token)?;\n                                self.parse_tree_stack.push(ParseTreeType::T(token.clone()));\n                            } else {\n                                self.parse_tree_stack.push(ParseTreeType::T(token));\n                                self.production_depth += 0;\n                            }")
mut("C20", "R20.2", "recovery-edit-before-enabled-test", PT,
    "        if !self.is_recovery_enabled() {\n            return Err(ParserError::RecoveryFailed.into());\n        }\n        stream.borrow_mut().enter_recovery_mode();\n        stream.borrow_mut().ensure_buffer()?;",
    "        stream.borrow_mut().enter_recovery_mode();\n        if !self.is_recovery_enabled() {\n            return Err(ParserError::RecoveryFailed.into());\n        }\n        stream.borrow_mut().ensure_buffer()?;")
mut("C20", "R20.3", "depth-unpaired", PT,
    "                        if !self.productions[p].is_push_production {\n                            self.production_depth -= 1;",
    "                        if self.productions[p].is_push_production {\n                            self.production_depth -= 1;")
# ---- C24
mut("C24", "R24.1", "hashset-to-vec", PA + "analysis/left_recursion.rs",
    "    can_start_with.iter().fold(Vec::new(), |mut acc, (k, v)| {\n        if v.contains(k) {\n            acc.push(k.to_owned());\n        }\n        acc\n    })",
    "    can_start_with.iter().fold(Vec::new(), |mut acc, (k, v)| {\n        if v.contains(k) {\n            acc.extend(v.iter().filter(|x| *x == k).cloned().collect::<Vec<String>>());\n        }\n        acc\n    })")
# ---- C25
mut("C25", "R25.2", "auto-ws-polarity", PA + "conversions/par/grammar_to_par.rs",
    "    if !scanner_config.auto_ws {", "    if scanner_config.auto_ws {")
mut("C25", "R25.1", "member-name-dropped", PA + "grammar/symbol.rs",
    "            Self::N(n, a, u, m) => {\n                let mut s = String::new();\n                a.decorate(&mut s, n)\n                    .map_err(|e| anyhow!(\"Decorate error!: {}\", e))?;\n                if let Some(member) = m {\n                    write!(s, \"@{member}\").map_err(|e| anyhow!(\"IO error!: {}\", e))?;\n                }",
    "            Self::N(n, a, u, _m) => {\n                let mut s = String::new();\n                a.decorate(&mut s, n)\n                    .map_err(|e| anyhow!(\"Decorate error!: {}\", e))?;")
# ---- C29
mut("C29", "R29.2", "publish-from-close", LS + "server.rs",
    "    pub(crate) fn handle_close_document(", "    #[allow(dead_code)]\n    pub(crate) fn republish(&self, connection: Arc<lsp_server::Connection>, uri: Uri) {\n        let _ = Self::notify_analysis_ok(connection, uri, 0);\n    }\n\n    pub(crate) fn handle_close_document(")

# ---- C03
mut("C03", "R03.1", "ok-without-accept", LRT,
    "                None => {\n                    self.handle_parse_error(&stream, current_state, terminal_index)?;\n                }",
    "                None => {\n                    if terminal_index == 0 {\n                        break;\n                    }\n                    self.handle_parse_error(&stream, current_state, terminal_index)?;\n                }")
mut("C03", "R03.3", "reduce-pops-one-less", LRT,
    "                            for _ in 0..n {\n                                // Pop n states from the stack",
    "                            for _ in 1..n {\n                                // Pop n states from the stack")
mut("C03", "R03.4", "action-twice", LRT,
    "        user_actions.call_semantic_action_for_production_number(prod_num, &arguments)?;\n        Ok(n)",
    "        user_actions.call_semantic_action_for_production_number(prod_num, &arguments)?;\n        if n == 0 {\n            user_actions.call_semantic_action_for_production_number(prod_num, &arguments)?;\n        }\n        Ok(n)")
# ---- C04
mut("C04", "R04.1", "no-warnings", PA + "analysis/lalr1_parse_table.rs",
    "    fn warn_on_resolved_conflicts(&self) -> bool {\n        true\n    }", "    fn warn_on_resolved_conflicts(&self) -> bool {\n        false\n    }")
mut("C04", "R04.2", "record-only-some", PA + "analysis/lalr1_parse_table.rs",
    "        self.calls.borrow_mut().push(conflict);", "        if self.calls.borrow().is_empty() {\n            self.calls.borrow_mut().push(conflict);\n        }")
# ---- C07
mut("C07", "R07.1", "sort-by-term-first", PA + "analysis/compiled_la_dfa.rs",
    "            transitions.sort_by_key(|s| (s.from_state, s.term));", "            transitions.sort_by_key(|s| (s.term, s.from_state));")
mut("C07", "R07.2", "group-accepting-by-state", PA + "analysis/compiled_la_dfa.rs",
    "            let combinable_groups = group_by(&final_states, |t| t.1);", "            let combinable_groups = group_by(&final_states, |t| t.0 as i32 / 2);")
mut("C07", "R07.4", "k-not-copied", PA + "analysis/compiled_la_dfa.rs",
    "                productions,\n                k: value.k,", "                productions,\n                k: value.transitions.len().min(1),")
# ---- C09 / C10 / C33
mut("C09", "R09.1", "stale-exclusions", PA + "transformation/canonicalization.rs",
    "    while modified {\n        let exclusions = variable_names(&productions);\n        if let Some((name, prod_num, alts)) =",
    "    let exclusions = variable_names(&productions);\n    while modified {\n        if let Some((name, prod_num, alts)) =")
mut("C09", "R09.2", "bypass-generate-name", PA + "transformation/canonicalization.rs",
    "        let r_tick_name = generate_name(exclusions.iter(), production_name + \"List\");",
    "        let r_tick_name = if exclusions.len() > 4000 {\n            generate_name(exclusions.iter(), production_name + \"List\")\n        } else {\n            production_name + \"List\"\n        };")
mut("C10", "R10.1", "empty-exclusions", PA + "transformation/left_factoring.rs",
    "        let exclusions = var_names(&operand.pr);", "        let exclusions: Vec<String> = Vec::new();\n        let _ = var_names(&operand.pr);")
mut("C33", "R33.1", "terminal-names-not-excluded", PA + "generators/lexer_generator.rs",
    "            let n = generate_name(\n                acc.iter(),", "            let n = generate_name(\n                acc.iter().take(5),")
# ---- C13
mut("C13", "R13.3", "user-terminals-reversed", PA + "generators/scanner_config.rs",
    "        let mut terminal_mappings = cfg.get_ordered_terminals().iter().enumerate().fold(",
    "        let mut terminal_mappings = cfg.get_ordered_terminals().iter().enumerate().rev().fold(")
mut("C13", "R13.1", "parser-peeks-scanner", RT + "lexer/token_stream.rs",
    "    pub fn all_input_consumed(&self) -> bool {", "    pub fn all_input_consumed(&self) -> bool {\n        let _ = self.token_iter.find_iter.current_mode();")
# ---- C14
mut("C14", "R14.2", "gap-text-off-by-one", RT + "lexer/token_buffer.rs",
    "                    &input[gap_location.start as usize..gap_location.end as usize],",
    "                    &input[gap_location.start as usize..gap_location.start as usize],")
mut("C14", "R14.1", "skip-tokens-filtered", LRT,
    "            .take_skip_tokens()\n            .drain(..)\n            .try_for_each(|t| {", "            .take_skip_tokens()\n            .drain(..)\n            .skip(1)\n            .try_for_each(|t| {")
# ---- C16
mut("C16", "R16.1", "catch-all-depends-on-auto-ws", PA + "generators/scanner_config.rs",
    "        if !self.allow_unmatched {\n            let error_index", "        if !self.allow_unmatched && self.auto_ws {\n            let error_index")
# ---- C21
mut("C21", "R21.1", "trans-fields-swapped", PA + "generators/parser_generator.rs",
    "                    t.from_state, t.term, t.to_state, t.prod_num\n                ));\n                acc\n            },\n        );\n        let k = automaton_ir.k;",
    "                    t.to_state, t.term, t.from_state, t.prod_num\n                ));\n                acc\n            },\n        );\n        let k = automaton_ir.k;")
mut("C21", "R21.2", "no-reverse", PA + "generators/parser_generator.rs",
    "        let production = production_ir.rhs.iter().rev().fold(", "        let production = production_ir.rhs.iter().fold(")
mut("C21", "R21.4", "export-swaps-states", PA + "generators/parser_model.rs",
    "            .map(|t| LookaheadTransitionExportModel {\n                from_state: t.from_state,\n                term: t.term,\n                to_state: t.to_state,",
    "            .map(|t| LookaheadTransitionExportModel {\n                from_state: t.to_state,\n                term: t.term,\n                to_state: t.from_state,")
# ---- C26 / C30
mut("C26", "R26.1", "question-mark-to-unwrap", PA + "generators/grammar_trans.rs",
    "        GrammarType::LLK => check_and_transform_ll(cfg),", "        GrammarType::LLK => Ok(check_and_transform_ll(cfg).unwrap()),")
mut("C30", "R30.1", "new-unwrap-in-rename", LS + "server.rs",
    "    pub(crate) fn handle_rename(&self, params: RenameParams) -> Option<WorkspaceEdit> {",
    "    pub(crate) fn handle_rename(&self, params: RenameParams) -> Option<WorkspaceEdit> {\n        let _ = self.documents.get(&params.text_document_position.text_document.uri).unwrap();")
# ---- C27 / C28
mut("C27", "R27.3", "drop-leftover-comments", LS + "formatting/format/format_impl.rs",
    "        new_text.push_str(&comments.handle_comments(&fmt_options));", "        let _ = comments.is_empty();")
mut("C28", "R28.1", "skip-list-tail-not-collected", LS + "parol_ls_grammar.rs",
    "                        // Add the reference to the non-terminal for hover and rename support\n                        self.add_non_terminal_ref(&id.identifier.identifier);\n\n                        acc.push(id_sym);\n                        acc\n                    });\n\n                let mut skip_directive",
    "                        acc.push(id_sym);\n                        acc\n                    });\n\n                let mut skip_directive")
# ---- C31 / C32 / C34
mut("C31", "R31.1", "insert-does-not-advance-exp", PT,
    "                        .insert_token_at(stream_idx, expected_token_types[exp_idx])?;\n                    stream_idx += 1;\n                    exp_idx += 1;",
    "                        .insert_token_at(stream_idx, expected_token_types[exp_idx])?;\n                    stream_idx += 1;")
mut("C32", "R32.1", "setter-wrong-shift", PA + "analysis/k_tuple.rs",
    "    fn set_next_index(&mut self, i: u8) {\n        self.t &= 0xF0FF_FFFF_FFFF_FFFF_FFFF_FFFF_FFFF_FFFF;\n        self.t |= (i as u128) << 120;",
    "    fn set_next_index(&mut self, i: u8) {\n        self.t &= 0xF0FF_FFFF_FFFF_FFFF_FFFF_FFFF_FFFF_FFFF;\n        self.t |= (i as u128) << 116;")
mut("C34", "R34.1", "ls-grammar-extra-alternative", "crates/parol-ls/parol_ls.par",
    "    | \"%allow_unmatched\"\n    ;", "    | \"%allow_unmatched\"\n    | \"%allow_unmatched\" Identifier\n    ;")
# ---- later additions
mut("C08", "R08.6", "early-exit-on-less", RT + "parser/lookahead_dfa.rs",
    "                    Ordering::Greater => {\n                        // The token type is not found\n                        break;\n                    }\n                    _ => (),",
    "                    Ordering::Less => {\n                        // The token type is not found\n                        break;\n                    }\n                    _ => (),")
mut("C08", "R08.5", "lookahead-index-constant", RT + "parser/lookahead_dfa.rs",
    "            let current_lookahead_token = token_stream.lookahead_token_type(i)?;", "            let current_lookahead_token = token_stream.lookahead_token_type(i.min(1))?;")
mut("C01", "R01.6", "all-input-consumed-negated", RT + "lexer/token_stream.rs",
    "            Some(token) => token.token_type == super::EOI,", "            Some(token) => token.token_type != super::EOI || token.text().is_empty(),")
# ---- rules added after the first selftest round
mut("C09", "R09.0", "single-pass-name-scan", PA + "utils/mod.rs",
    "        while exclusions.clone().any(|n| n.as_ref() == new_name) {\n            num += 1;\n            new_name = format!(\"{prefix}{num}\");\n        }",
    "        for n in exclusions.clone() {\n            if n.as_ref() == new_name {\n                num += 1;\n                new_name = format!(\"{prefix}{num}\");\n            }\n        }")
mut("C33", "R33.0", "preferred-name-unchecked", PA + "utils/mod.rs",
    "    if exclusions.clone().any(|n| n.as_ref() == preferred_name) {", "    if exclusions.clone().skip(1).any(|n| n.as_ref() == preferred_name) {")
mut("C10", "R10.3", "zip-prefix-test", PA + "transformation/left_factoring.rs",
    "            if pr.len() < prefix_len || pr.get_r()[0..prefix_len] != prefix[..] {",
    "            if pr.get_r().iter().zip(prefix).any(|(s, p)| s != p) {")
mut("C10", "R10.4", "cut-at-constant", PA + "transformation/left_factoring.rs",
    "                let rhs = rhs.split_off(prefix_len);", "                let rhs = rhs.split_off(1);")
mut("C12", "R12.1", "scan-start-productions-only", PA + "transformation/lr_augmentation.rs",
    "    let start_symbol_is_used_on_rhs = cfg.pr.iter().any(|p| {",
    "    let start_symbol_is_used_on_rhs = cfg.pr.iter().filter(|p| p.get_n_str() == cfg.st).any(|p| {")
mut("C19", "R19.4", "unguarded-refill", RT + "lexer/token_stream.rs",
    "        let fill_len = self.tokens.len();\n        if fill_len < self.k {",
    "        let fill_len = self.tokens.len();\n        if fill_len != self.k {")
mut("C33", "R33.5", "raw-prefix-for-all-keywords", PA + "generators/naming_helper.rs",
    "        if NON_RAW_KEYWORDS.contains(&name.as_str()) {", "        if false && NON_RAW_KEYWORDS.contains(&name.as_str()) {")
mut("C33", "R33.5", "keyword-dropped", PA + "generators/naming_helper.rs",
    "\"typeof\", \"union\",", "\"union\",")
mut("C33", "R33.5", "camel-case-unescaped", PA + "generators/naming_helper.rs",
    "        // `Self` is the only rust keyword that starts with an uppercase letter\n        Self::escape_rust_keyword(result)",
    "        result")
mut("C33", "R33.4", "punctuation-name-not-identifier", PA + "generators/terminal_name_generator.rs",
    "\"Plus\"", "\"Plus+\"")
mut("C09", "R09.3", "single-group-drops-siblings", PA + "transformation/canonicalization.rs",
    "                let mut production1 = production.clone();\n                production1.rhs.0[alt_index].0.remove(grp_index_in_alt);",
    "                let mut production1 = production.clone();\n                production1.rhs.0.truncate(alt_index + 1);\n                production1.rhs.0[alt_index].0.remove(grp_index_in_alt);")
mut("C11", "R11.4", "flag-overwritten", PA + "analysis/left_recursion.rs",
    "            changed |= v.len() < ", "            changed = v.len() < ")
mut("C14", "R14.5", "end-column-from-start", RT + "lexer/token_iter.rs",
    ".end_column(positions.end_position.column as u32)", ".end_column(positions.start_position.column as u32)")
mut("C31", "R31.2", "fill-insert-recorded-as-replace", RT + "parser/recovery.rs",
    "                        min = d[i][j - 1] + 1;\n                        op = EditOp::Insert;",
    "                        min = d[i][j - 1] + 1;\n                        op = EditOp::Replace;")
mut("C31", "R31.2", "candidate-tests-other-cell", RT + "parser/recovery.rs",
    "                    if d[i - 1][j - 1] + 1 < min {", "                    if d[i - 1][j] + 1 < min {")
mut("C31", "R31.2", "boundary-row-delete", RT + "parser/recovery.rs",
    "            ops[0][j] = EditOp::Insert;", "            ops[0][j] = EditOp::Delete;")
# ---- third round
mut("C25", "R25.5", "lookahead-after-decorate", PA + "grammar/symbol.rs",
    "                let mut token_expression = format!(\"{delimiter}{t}{delimiter}\");\n                if let Some(la) = l {\n                    // The lookahead belongs to the token expression, AST control comes behind it\n                    write!(token_expression, \" {}\", la.to_par()).map_err(|e| anyhow!(e))?;\n                }\n                a.decorate(&mut d, &token_expression)\n                    .map_err(|e| anyhow!(\"Decorate error!: {}\", e))?;",
    "                a.decorate(&mut d, &format!(\"{delimiter}{t}{delimiter}\"))\n                    .map_err(|e| anyhow!(\"Decorate error!: {}\", e))?;\n                if let Some(la) = l {\n                    write!(d, \" {}\", la.to_par()).map_err(|e| anyhow!(e))?;\n                }")
mut("C28", "R28.4", "scanner-state-arm-reads-non-terminal-table", LS + "parol_ls_grammar.rs",
    "                            edits: self\n                                .scanner_state_definitions\n                                .find_references(ident)",
    "                            edits: self\n                                .non_terminal_definitions\n                                .find_references(ident)")
mut("C27", "R27.5", "comments-before-bar-only-at-line-end", LS + "formatting/format/grammar_core_fmt.rs",
    "                if !comments_before_or.is_empty() {\n                    // Comments in front of the `|` are kept in any layout, not only at line ends\n",
    "                if Line::ends_with_nl(&acc) && !comments_before_or.is_empty() {\n")
mut("C15", "R15.4", "two-atom-template-without-run", PA + "generators/scanner_config.rs",
    "r\"{s}[^{c0}]*({a0}+[^{excluded}][^{c0}]*)*{a0}+{a1}\"", "r\"{s}[^{c0}]*({a0}[^{excluded}][^{c0}]*)*{a0}{a1}\"")
mut("C14", "R14.2", "no-gap-before-first-token", RT + "lexer/token_buffer.rs",
    "        if self.last_token_location < new_start {", "        if !self.tokens.is_empty() && self.last_token_location < new_start {")
mut("C29", "R29.4", "first-content-change", LS + "server.rs",
    "        if let Some(change) = content_changes.last() {", "        if let Some(change) = content_changes.first() {")
mut("C30", "R30.5", "unchecked-range-index", LS + "server.rs",
    "        Some(input.get(start..end)?.trim().to_owned())", "        Some(input[start..end].trim().to_owned())")
mut("C32", "R32.2", "get-off-by-one-position", PA + "analysis/k_tuple.rs",
    "            let mut terminal_index = (self.t >> (i * self.bits() as usize)) & self.mask();",
    "            let mut terminal_index = (self.t >> ((i + 1) * self.bits() as usize)) & self.mask();")
mut("C32", "R32.2", "set-clears-at-other-position", PA + "analysis/k_tuple.rs",
    "        let mask = !(terminal_mask << (i * bits));", "        let mask = !(terminal_mask << bits);")
# ---- C06 (thin: cache coherence)
mut("C06", "R06.1", "first-set-stored-under-other-k", PA + "analysis/k_decision.rs",
    "            *self.0[k].borrow_mut() = entry;", "            *self.0[k.saturating_sub(1)].borrow_mut() = entry;")
mut("C06", "R06.1", "follow-solver-called-with-other-k", PA + "analysis/k_decision.rs",
    "            let (r, f) = follow_k(grammar_config, k, first_cache, self);",
    "            let (r, f) = follow_k(grammar_config, k.max(1), first_cache, self);")
mut("C06", "R06.2", "solver-reads-slot-directly", PA + "analysis/first.rs",
    "        let last_first_set = first_cache.get(k - 1, grammar_config).borrow().clone();",
    "        let last_first_set = first_cache.0[k - 1].borrow().clone();")
# ---- C05 (thin: shape of the k search)
mut("C05", "R05.3", "search-starts-at-two", PA + "analysis/k_decision.rs",
    "        let mut current_k = 1;\n        loop {", "        let mut current_k = 2;\n        loop {")
mut("C05", "R05.2", "follow-set-of-smaller-k", PA + "analysis/k_decision.rs",
    "            let cached = follow_cache.get(current_k, grammar_config, first_cache);\n            if let Some(follow_set) = cached\n                .borrow()\n                .follow_set\n                .non_terminals\n                .get(nti.non_terminal_index(non_terminal))",
    "            let cached = follow_cache.get(current_k - 1, grammar_config, first_cache);\n            if let Some(follow_set) = cached\n                .borrow()\n                .follow_set\n                .non_terminals\n                .get(nti.non_terminal_index(non_terminal))")
mut("C05", "R05.4", "only-neighbours-compared", PA + "analysis/k_decision.rs",
    "                        .all(|(j, t2)| i == j || t1.is_disjoint(t2))", "                        .all(|(j, t2)| i == j || *j != *i + 1 || t1.is_disjoint(t2))")
mut("C05", "R05.5", "undecidable-non-terminal-defaults", PA + "analysis/k_decision.rs",
    "                decidable(grammar_config, n, max_k, first_cache, follow_cache),\n            )\n        })\n        .try_fold",
    "                Ok(decidable(grammar_config, n, max_k, first_cache, follow_cache).unwrap_or(max_k)),\n            )\n        })\n        .try_fold")
mut("C05", "R05.1", "ok-without-test", PA + "analysis/k_decision.rs",
    "                if concatenated_k_tuples.iter().all(|(i, t1)| {", "                if current_k == max_k || concatenated_k_tuples.iter().all(|(i, t1)| {")
# ---- C23 (thin: repetition order agreement)
mut("C23", "R23.1", "reverse-for-lalr", PA + "generators/user_trait_generator.rs",
    "                            && grammar_type == GrammarType::LLK,", "                            && grammar_type == GrammarType::LALR1,")
mut("C23", "R23.1", "never-reverse", PA + "generators/user_trait_generator.rs",
    "                            && grammar_type == GrammarType::LLK,", "                            && grammar_type != GrammarType::LLK && grammar_type != GrammarType::LALR1,")
mut("C23", "R23.1", "ll-lists-left-recursive-in-case-2", PA + "transformation/canonicalization.rs",
    "                                GrammarType::LLK => vec![\n                                    Factor::Group(repeat),\n                                    Factor::default_non_terminal(r_tick_name.clone()),\n                                ],",
    "                                GrammarType::LLK => vec![\n                                    Factor::default_non_terminal(r_tick_name.clone()),\n                                    Factor::Group(repeat),\n                                ],")
mut("C23", "R23.1", "mutable-argument-swapped", PA + "generators/user_trait_generator.rs",
    "                                GrammarType::LLK => i == 0,\n                                GrammarType::LALR1 => i == member_count - 1,",
    "                                GrammarType::LLK => i == member_count - 1,\n                                GrammarType::LALR1 => i == 0,")
# ---- batch 16/17 rules
mut("C32", "R32.4", "k_concat-returns-other-for-eps", PA + "analysis/k_tuple.rs",
    "            // Remove possible epsilon terminal\n            self.clear();", "            return *other;")
mut("C07", "R07.6", "insert-without-lookup", PA + "analysis/k_decision.rs",
    "            if let Some(found_dfa) = acc.remove(&nt) {\n                let united_dfa = found_dfa.unite(&dfa)?;\n                acc.insert(nt, united_dfa);\n            } else {\n                acc.insert(nt, dfa);\n            }",
    "            acc.insert(nt, dfa);")
mut("C26", "R26.7", "start-symbol-only-when-productions-exist", PA + "grammar/cfg.rs",
    "        let mut set = BTreeSet::new();\n        set.insert(self.st.clone());", "        let mut set = BTreeSet::new();\n        if !self.pr.is_empty() {\n            set.insert(self.st.clone());\n        }")
mut("C20", "R20.6", "start-production-push-result-dropped", PT,
    "        self.push_production(tree_builder, prod_num)?;\n\n        'WHILE:", "        let _ = self.push_production(tree_builder, prod_num);\n\n        'WHILE:")
mut("C02", "R02.7", "close-only-for-non-empty-productions", PT,
    "            // And we close the production subtree\n            tree_builder.close_non_terminal()?;", "            // And we close the production subtree\n            if l > 0 {\n                tree_builder.close_non_terminal()?;\n            }")
