#!/bin/sh
# Build the factgen driver and warm the fact cache for /repo's current tree (offline).
set -e
cd "$(dirname "$0")"
export CARGO_NET_OFFLINE=true
(cd driver && cargo +nightly build --release --offline)
python3 -c "
import sys; sys.path.insert(0,'.')
from pv import factcache
d,h,g,s = factcache.ensure()
print('facts', d, 'generated' if g else 'cached', '%.0fs' % s)
"
