"""Crate-spanning call graph over the fact files.

Edges:  call terminator -> resolved callee body (if in the workspace);
        unresolved trait method call -> every workspace impl of that trait method (+ default body);
        function -> closures defined in it (a created closure may be called);
        function -> fn items it mentions as values (`.map(Self::f)`).
Bodies of other crates (std, scnr2, lalry, syntree, petgraph ...) are leaves.
"""
from collections import deque


def _ops_of_rvalue(rv):
    k = rv[0]
    if k in ("use", "rep"):
        return [rv[1]]
    if k == "cast":
        return [rv[2]]
    if k == "bin":
        return [rv[2], rv[3]]
    if k == "un":
        return [rv[2]]
    if k == "agg":
        return list(rv[4])
    return []


class CallGraph:
    def __init__(self, facts):
        self.facts = facts
        self.impls_of = {}      # trait item path -> [Body]
        for b in facts.bodies:
            if b.trait_item:
                self.impls_of.setdefault(b.trait_item, []).append(b)
        self._out = {}
        self._in = None

    def key(self, b):
        return b.crate + "|" + b.dp

    def targets_of_call(self, c):
        """workspace bodies a call may enter"""
        facts = self.facts
        out = []
        r = c.callee.get("r")
        p = c.callee.get("p")
        if r and r in facts.by_path:
            return list(facts.by_path[r])
        if p is None:
            return out
        if p in facts.by_path and not c.callee.get("tr"):
            return list(facts.by_path[p])
        if c.callee.get("tr"):
            # trait method: resolved to something outside the workspace -> leaf,
            # unresolved (generic / dyn) -> all impls + default body
            if r and r != p and r not in facts.by_path:
                if c.callee.get("res"):
                    return out
            impls = self.impls_of.get(p, [])
            if c.callee.get("res") and r is None:
                # resolved to the declared item itself (default method body or same path)
                out.extend(facts.by_path.get(p, []))
                # a resolved call to a trait item without impl body: could still be dyn dispatch
                if not out:
                    out.extend(impls)
                elif "dyn " in (c.callee.get("self") or ""):
                    out.extend(impls)
                return out
            out.extend(impls)
            out.extend(facts.by_path.get(p, []))
        return out

    def out_edges(self, b):
        k = self.key(b)
        if k in self._out:
            return self._out[k]
        edges = []
        for c in b.calls():
            for t in self.targets_of_call(c):
                edges.append((t, ("call", c.bb, c.line, c.path)))
        for cl in self.facts.children.get(b.path, []):
            if cl.crate == b.crate:
                edges.append((cl, ("closure", None, cl.lo, cl.path)))
        # fn items used as values
        seen = set()
        for bi, blk in enumerate(b.blocks):
            ops = []
            for s in blk["s"]:
                if s[0] == "a":
                    ops.extend(_ops_of_rvalue(s[2]))
            t = blk["t"]
            if t[0] in ("call", "tailcall"):
                ops.extend(t[2])
            for op in ops:
                if op and op[0] == "k" and op[4] and op[4] not in seen:
                    seen.add(op[4])
                    for tb in self.facts.by_path.get(op[4], []):
                        if tb.kind != "Closure":
                            edges.append((tb, ("fnitem", bi, blk.get("l", 0), op[4])))
        self._out[k] = edges
        return edges

    def reach(self, entries, stop=None, crates=None):
        """BFS from entry bodies; returns dict key -> (Body, parent key|None, edge info)"""
        seen = {}
        dq = deque()
        for e in entries:
            k = self.key(e)
            if k not in seen:
                seen[k] = (e, None, None)
                dq.append(e)
        while dq:
            b = dq.popleft()
            if stop and stop(b):
                continue
            for t, info in self.out_edges(b):
                if crates is not None and t.crate not in crates:
                    continue
                k = self.key(t)
                if k not in seen:
                    seen[k] = (t, self.key(b), info)
                    dq.append(t)
        return seen

    def chain(self, seen, body):
        """call chain (list of display strings) from an entry to `body`"""
        out = []
        k = self.key(body)
        while k is not None:
            b, pk, info = seen[k]
            out.append(b.path)
            k = pk
        out.reverse()
        return out

    def callers_of(self, *paths, crates=None):
        """[(Body, Call)] of all call sites whose declared or resolved callee is one of paths"""
        out = []
        ps = set(paths)
        for b in self.facts.bodies:
            if crates is not None and b.crate not in crates:
                continue
            for c in b.calls():
                if c.names() & ps:
                    out.append((b, c))
        return out
