"""Facts always correspond to /repo's *current working tree*: keyed by a content hash of the
workspace sources; (re)generated on a scratch copy with the factgen driver when missing."""
import fcntl
import hashlib
import os
import shutil
import subprocess
import sys
import time

VERIF = os.path.dirname(os.path.dirname(os.path.abspath(__file__)))
REPO = os.environ.get("PAROL_REPO", "/repo")
CACHE = os.path.join(VERIF, ".cache")
DRIVER = os.path.join(VERIF, "driver", "target", "release", "factgen")
SCRATCH = os.environ.get("PAROL_VERIF_SCRATCH", "/var/tmp/parol-verif-scratch")
EXPECTED = ["parol_runtime.lib", "parol.lib", "parol.bin", "parol_ls.bin"]
KEEP = 14


def _iter_files(repo):
    tops = ["Cargo.toml", "Cargo.lock"]
    for t in tops:
        p = os.path.join(repo, t)
        if os.path.isfile(p):
            yield t, p
    base = os.path.join(repo, "crates")
    for root, dirs, files in os.walk(base):
        dirs[:] = sorted(d for d in dirs if d not in ("target", ".git", "node_modules"))
        for f in sorted(files):
            p = os.path.join(root, f)
            yield os.path.relpath(p, repo), p


def tree_hash(repo=REPO):
    h = hashlib.sha256()
    n = 0
    for rel, p in _iter_files(repo):
        if os.path.islink(p):
            continue
        h.update(rel.encode())
        h.update(b"\0")
        try:
            with open(p, "rb") as fh:
                h.update(fh.read())
        except OSError:
            continue
        h.update(b"\0")
        n += 1
    return h.hexdigest()[:24], n


def _sysroot():
    return subprocess.check_output(["rustc", "+nightly", "--print", "sysroot"], text=True).strip()


def build_driver(log=sys.stderr):
    if os.path.isfile(DRIVER):
        src = os.path.join(VERIF, "driver", "src", "main.rs")
        if os.path.getmtime(src) <= os.path.getmtime(DRIVER):
            return
    print("[factcache] building factgen driver", file=log)
    env = dict(os.environ, CARGO_NET_OFFLINE="true")
    r = subprocess.run(["cargo", "+nightly", "build", "--release", "--offline"],
                       cwd=os.path.join(VERIF, "driver"), env=env,
                       stdout=subprocess.PIPE, stderr=subprocess.STDOUT, text=True)
    if r.returncode != 0:
        print(r.stdout, file=log)
        raise RuntimeError("cannot build factgen driver")


REQUIRED = ["parol_runtime.lib", "parol.lib", "parol.bin"]


def _complete(d):
    """COMPLETE lists the fact files of the run; parol_ls.bin may be absent when parol-ls's build script
    (which *runs* the freshly built generator on parol_ls.par) failed on this tree"""
    return all(os.path.isfile(os.path.join(d, e + ".jsonl")) for e in REQUIRED) and \
        os.path.isfile(os.path.join(d, "COMPLETE"))


def missing_crates(d):
    return [e for e in EXPECTED if not os.path.isfile(os.path.join(d, e + ".jsonl"))]


def _prune(factsroot, keep_name):
    try:
        ds = [os.path.join(factsroot, d) for d in os.listdir(factsroot)]
    except OSError:
        return
    ds = [d for d in ds if os.path.isdir(d) and os.path.basename(d) != keep_name]
    ds.sort(key=lambda d: os.path.getmtime(d), reverse=True)
    for d in ds[KEEP:]:
        shutil.rmtree(d, ignore_errors=True)


def ensure(repo=REPO, log=sys.stderr):
    """returns (factdir, tree_hash, generated: bool, seconds)"""
    t0 = time.time()
    th, nfiles = tree_hash(repo)
    # facts also depend on the driver that wrote them
    with open(os.path.join(VERIF, "driver", "src", "main.rs"), "rb") as fh:
        th = th + "-" + hashlib.sha256(fh.read()).hexdigest()[:8]
    factsroot = os.path.join(CACHE, "facts")
    os.makedirs(factsroot, exist_ok=True)
    fdir = os.path.join(factsroot, th)
    if _complete(fdir):
        try:
            os.utime(fdir)      # LRU: pruning removes the least recently *used* fact sets
        except OSError:
            pass
        return fdir, th, False, time.time() - t0
    lock = open(os.path.join(CACHE, "lock"), "w")
    fcntl.flock(lock, fcntl.LOCK_EX)
    try:
        if _complete(fdir):
            return fdir, th, False, time.time() - t0
        build_driver(log)
        print("[factcache] generating facts for tree %s (%d files)" % (th, nfiles), file=log)
        if os.path.exists(SCRATCH):
            shutil.rmtree(SCRATCH, ignore_errors=True)
        os.makedirs(SCRATCH)
        try:
            subprocess.check_call(["rsync", "-a", "--delete", "--exclude", "/target", "--exclude", ".git",
                                   "--exclude", "/book", "--exclude", "/examples",
                                   repo.rstrip("/") + "/", SCRATCH + "/"])
            # the hash must describe what was copied
            th2, _ = tree_hash(SCRATCH)
            if th2 != th.split("-")[0]:
                raise RuntimeError("working tree changed while it was being copied; re-run")
            target = os.path.join(CACHE, "target")
            fp = os.path.join(target, "debug", ".fingerprint")
            if os.path.isdir(fp):
                for d in os.listdir(fp):
                    if d.startswith("parol"):
                        shutil.rmtree(os.path.join(fp, d), ignore_errors=True)
            tmpout = fdir + ".tmp.%d" % os.getpid()
            shutil.rmtree(tmpout, ignore_errors=True)
            os.makedirs(tmpout)
            env = dict(os.environ)
            env.update({
                "LD_LIBRARY_PATH": os.path.join(_sysroot(), "lib"),
                "RUSTFLAGS": "-Zmir-opt-level=0 -Awarnings",
                "RUSTC_WORKSPACE_WRAPPER": DRIVER,
                "FACTGEN_OUT": tmpout,
                "CARGO_TARGET_DIR": target,
                "CARGO_NET_OFFLINE": "true",
                "CARGO_INCREMENTAL": "0",
            })
            env.pop("RUSTC_WRAPPER", None)
            r = subprocess.run(["cargo", "+nightly", "check", "--offline", "-p", "parol_runtime", "-p", "parol"],
                               cwd=SCRATCH, env=env, stdout=subprocess.PIPE, stderr=subprocess.STDOUT, text=True)
            if r.returncode != 0:
                tail = "\n".join(r.stdout.splitlines()[-60:])
                print(tail, file=log)
                shutil.rmtree(tmpout, ignore_errors=True)
                raise RuntimeError("cargo check failed on the current tree (does it compile?)")
            missing = [e for e in REQUIRED if not os.path.isfile(os.path.join(tmpout, e + ".jsonl"))]
            if missing:
                shutil.rmtree(tmpout, ignore_errors=True)
                raise RuntimeError("factgen wrote no facts for %s (driver skipped?)" % missing)
            # parol-ls: its build script runs the generator built from this tree; a failure there must not hide
            # the facts of the other crates (checks that need parol_ls then fail with an error)
            r2 = subprocess.run(["cargo", "+nightly", "check", "--offline", "-p", "parol-ls"],
                                cwd=SCRATCH, env=env, stdout=subprocess.PIPE, stderr=subprocess.STDOUT, text=True)
            note = ""
            if r2.returncode != 0 or not os.path.isfile(os.path.join(tmpout, "parol_ls.bin.jsonl")):
                note = "parol-ls failed to build:\n" + "\n".join(r2.stdout.splitlines()[-25:])
                print("[factcache] " + note, file=log)
                try:
                    os.remove(os.path.join(tmpout, "parol_ls.bin.jsonl"))
                except OSError:
                    pass
            with open(os.path.join(tmpout, "COMPLETE"), "w") as fh:
                fh.write(th + "\n" + note)
            shutil.rmtree(fdir, ignore_errors=True)
            os.rename(tmpout, fdir)
        finally:
            shutil.rmtree(SCRATCH, ignore_errors=True)
        _prune(factsroot, th)
        return fdir, th, True, time.time() - t0
    finally:
        fcntl.flock(lock, fcntl.LOCK_UN)
        lock.close()
