"""CFG algorithms over a facts.Body (normal edges only).

dominators / post-dominators (iterative Cooper-Harvey-Kennedy), control dependence,
natural loops, reachability avoiding a block/edge set, and bool-flag-sensitive path search.
"""
from collections import deque


def reachable_from(body, start, avoid_blocks=(), avoid_edges=()):
    """blocks reachable from `start` (inclusive) without entering avoid_blocks / taking avoid_edges"""
    avoid_blocks = set(avoid_blocks)
    avoid_edges = set(avoid_edges)
    starts = [start] if isinstance(start, int) else list(start)
    seen = set()
    dq = deque()
    for s in starts:
        if s not in avoid_blocks:
            seen.add(s)
            dq.append(s)
    while dq:
        b = dq.popleft()
        for s in body.succs(b):
            if s in seen or s in avoid_blocks or (b, s) in avoid_edges:
                continue
            seen.add(s)
            dq.append(s)
    return seen


def reaches(body, targets, avoid_blocks=(), avoid_edges=()):
    """blocks from which some block of `targets` is reachable (inclusive)"""
    avoid_blocks = set(avoid_blocks)
    avoid_edges = set(avoid_edges)
    seen = set(t for t in targets if t not in avoid_blocks)
    dq = deque(seen)
    while dq:
        b = dq.popleft()
        for p in body.preds(b):
            if p in seen or p in avoid_blocks or (p, b) in avoid_edges:
                continue
            seen.add(p)
            dq.append(p)
    return seen


def _rpo(n, succs, entry):
    seen = [False] * n
    order = []
    stack = [(entry, iter(succs(entry)))]
    seen[entry] = True
    while stack:
        b, it = stack[-1]
        adv = False
        for s in it:
            if not seen[s]:
                seen[s] = True
                stack.append((s, iter(succs(s))))
                adv = True
                break
        if not adv:
            order.append(b)
            stack.pop()
    order.reverse()
    return order


def _idoms(n, succs, preds, entry):
    order = _rpo(n, succs, entry)
    idx = {b: i for i, b in enumerate(order)}
    idom = {entry: entry}

    def intersect(a, b):
        while a != b:
            while idx[a] > idx[b]:
                a = idom[a]
            while idx[b] > idx[a]:
                b = idom[b]
        return a

    changed = True
    while changed:
        changed = False
        for b in order:
            if b == entry:
                continue
            new = None
            for p in preds(b):
                if p in idom:
                    new = p if new is None else intersect(p, new)
            if new is not None and idom.get(b) != new:
                idom[b] = new
                changed = True
    return idom


class Dom:
    """dominator tree of a body (entry = bb0)"""

    def __init__(self, body):
        self.body = body
        n = len(body.blocks)
        self.idom = _idoms(n, body.succs, body.preds, 0)

    def dominates(self, a, b):
        """a dominates b (reflexive); unreachable b -> True (vacuous)"""
        if b not in self.idom:
            return True
        while True:
            if a == b:
                return True
            nb = self.idom[b]
            if nb == b:
                return False
            b = nb

    def dominators(self, b):
        out = []
        if b not in self.idom:
            return out
        while True:
            out.append(b)
            nb = self.idom[b]
            if nb == b:
                break
            b = nb
        return out


class PostDom:
    """post-dominators with a virtual exit joining all blocks without successors
    (return, unreachable, diverging calls, resume)"""

    def __init__(self, body, exits=None, avoid_edges=()):
        self.body = body
        n = len(body.blocks)
        self.exit = n
        avoid_edges = set(avoid_edges)
        self.avoid_edges = avoid_edges
        if exits is None:
            # `unreachable` terminators are not exits: no execution ends there
            exits = [i for i in range(n) if not body.succs(i) and not body.is_cleanup(i)
                     and body.term(i)[0] != "unreach"]
        self.exits = set(exits)

        def succs(b):
            if b == self.exit:
                return list(self.exits)
            return [p for p in body.preds(b) if (p, b) not in avoid_edges]

        def preds(b):
            if b == self.exit:
                return []
            out = [s for s in body.succs(b) if (b, s) not in avoid_edges]
            if b in self.exits:
                out.append(self.exit)
            return out

        self.idom = _idoms(n + 1, succs, preds, self.exit)

    def postdominates(self, a, b):
        """a post-dominates b (reflexive)"""
        if b not in self.idom:
            return False
        while True:
            if a == b:
                return True
            nb = self.idom[b]
            if nb == b:
                return False
            b = nb


def control_dependence(body, avoid_edges=()):
    """map block -> set of (branch_block, successor) edges it is control dependent on
    (Ferrante-Ottenstein-Warren via post-dominator tree).  Edges in avoid_edges are treated as absent
    (used to ignore the error exits of `?`)."""
    avoid_edges = set(avoid_edges)
    pd = PostDom(body, avoid_edges=avoid_edges)
    cd = {i: set() for i in range(len(body.blocks))}
    for a in range(len(body.blocks)):
        ss = [x for x in body.succs(a) if (a, x) not in avoid_edges]
        if len(ss) < 2:
            continue
        for s in ss:
            # walk from s up the post-dominator tree until ipdom(a)
            stop = pd.idom.get(a)
            b = s
            guard = 0
            while b is not None and b != stop and b != pd.exit and guard < 100000:
                guard += 1
                cd[b].add((a, s))
                nb = pd.idom.get(b)
                if nb is None or nb == b:
                    break
                b = nb
    return cd


def natural_loops(body):
    """list of (header, set(blocks), [back edge sources])"""
    dom = Dom(body)
    loops = {}
    for b in range(len(body.blocks)):
        if b not in dom.idom:
            continue
        for s in body.succs(b):
            if dom.dominates(s, b):
                # back edge b -> s
                blocks = loops.setdefault(s, (set([s]), []))
                blocks[1].append(b)
                stack = [b]
                while stack:
                    x = stack.pop()
                    if x in blocks[0]:
                        continue
                    blocks[0].add(x)
                    stack.extend(body.preds(x))
    return [(h, bl, be) for h, (bl, be) in sorted(loops.items())]


def loop_containing(body, block, innermost=True):
    ls = [l for l in natural_loops(body) if block in l[1]]
    if not ls:
        return None
    ls.sort(key=lambda l: len(l[1]))
    return ls[0] if innermost else ls[-1]


# ------------------------------------------------------------------------------------------------
# bool-flag sensitive path search

def bool_flag_locals(body):
    """locals of type bool whose *every* definition is an assignment of a constant"""
    flags = set()
    for i, (ty, _n) in enumerate(body.locals):
        if ty != "bool":
            continue
        ds = body.defs(i)
        if not ds:
            continue
        ok = True
        for d in ds:
            if d[0] != "assign":
                ok = False
                break
            rv = d[3]
            if not (rv[0] == "use" and rv[1][0] == "k" and isinstance(rv[1][2], bool)):
                ok = False
                break
        if ok:
            flags.add(i)
    return flags


def _flag_of_switch(body, b, flags):
    """if block b ends in `switch(copy/move x)` where x is a flag or a same-block copy of a flag
    return the flag local"""
    t = body.term(b)
    if t[0] != "switch":
        return None
    op = t[1]
    if op[0] not in ("c", "m") or len(op[1]) != 1:
        return None
    l = op[1][0]
    if l in flags:
        return l
    # copy within the block: _63 = copy _41 ; switch(move _63)
    for s in reversed(body.stmts(b)):
        if s[0] == "a" and s[1] == [l]:
            rv = s[2]
            if rv[0] == "use" and rv[1][0] in ("c", "m") and len(rv[1][1]) == 1 and rv[1][1][0] in flags:
                # make sure the flag is not re-assigned after the copy inside this block
                return rv[1][1][0]
            return None
    return None


def find_path(body, start_blocks, goal_edge_pred, forbidden_block_pred=None, flags=None,
              init_flags=None, max_states=200000):
    """Search a feasible path (w.r.t. constant bool flags) from any of `start_blocks`
    to an *edge* (a,b) with goal_edge_pred(a,b) true, never entering a block with
    forbidden_block_pred(block) true.  Returns the block list of a witness path or None.

    State = (block, valuation of flags).  Flags start as `init_flags` (dict) or unknown (None).
    A switch on a flag with a known value only follows the matching edge.
    """
    if flags is None:
        flags = bool_flag_locals(body)
    flags = sorted(flags)
    fidx = {f: i for i, f in enumerate(flags)}
    init = [None] * len(flags)
    if init_flags:
        for f, v in init_flags.items():
            if f in fidx:
                init[fidx[f]] = v
    init = tuple(init)

    def transfer(b, val):
        val = list(val)
        for s in body.stmts(b):
            if s[0] == "a" and len(s[1]) == 1 and s[1][0] in fidx:
                rv = s[2]
                val[fidx[s[1][0]]] = rv[1][2]
        return tuple(val)

    dq = deque()
    seen = {}
    for s in start_blocks:
        if forbidden_block_pred and forbidden_block_pred(s):
            continue
        st = (s, init)
        seen[st] = None
        dq.append(st)
    n = 0
    while dq:
        st = dq.popleft()
        n += 1
        if n > max_states:
            raise RuntimeError("state budget exceeded in find_path")
        b, val = st
        out = transfer(b, val)
        fl = _flag_of_switch(body, b, set(flags))
        edges = None
        if fl is not None and out[fidx[fl]] is not None:
            v = 1 if out[fidx[fl]] else 0
            tgt = None
            for ev, et in body.switch_edges(b):
                if ev == v:
                    tgt = et
                    break
            if tgt is None:
                tgt = body.term(b)[3]
            edges = [tgt]
        if edges is None:
            edges = body.succs(b)
        for s in edges:
            if goal_edge_pred(b, s):
                # reconstruct
                path = [s, b]
                cur = st
                while seen[cur] is not None:
                    cur = seen[cur]
                    path.append(cur[0])
                path.reverse()
                return path
            if forbidden_block_pred and forbidden_block_pred(s):
                continue
            ns = (s, out)
            if ns not in seen:
                seen[ns] = st
                dq.append(ns)
    return None
