"""Tiny value-origin analysis over MIR facts.

MIR temporaries are (almost always) assigned exactly once; user variables may be assigned
several times.  `origin()` follows single-definition temporaries through copies, moves, borrows,
`CopyForDeref`, and transparent casts and returns a small term describing where a value comes from.

Terms
  ('const', ty, val, named, fnpath)
  ('path', root_local, (elem, ...))     elem = field name | '[]' (index) | '@Variant' (downcast)
  ('call', Call, [arg terms])           value returned by a call (args resolved lazily up to depth)
  ('bin', op, a, b) / ('un', op, a)
  ('agg', kind, name, variant, [terms])
  ('disc', term)                         discriminant read
  ('len', term)
  ('local', n)                           a multi-definition local (user variable)
  ('unknown', text)
"""

TRANSPARENT_CALLS = {
    # calls whose result is "the same value" as their first argument for provenance purposes
    "std::clone::Clone::clone",
    "std::ops::Deref::deref",
    "std::ops::DerefMut::deref_mut",
    "std::convert::AsRef::as_ref",
    "std::borrow::Borrow::borrow",
    "std::convert::Into::into",
    "std::convert::From::from",
    "std::iter::IntoIterator::into_iter",
    "core::slice::iter",
    "std::vec::Vec::as_slice",
    "std::string::String::as_str",
    "std::borrow::ToOwned::to_owned",
}


def _proj_elems(proj):
    out = []
    for e in proj:
        if e == "*":
            continue
        if e[0] == "f":
            out.append(e[2])
        elif e[0] == "i" or e[0] == "c" or e[0] == "s":
            out.append("[]")
        elif e[0] == "d":
            out.append("@" + e[1])
        else:
            out.append("?")
    return tuple(out)


def single_def(body, local):
    ds = body.defs(local)
    whole = [d for d in ds if d[0] in ("assign", "call")]
    if len(whole) == 1 and len(ds) == 1:
        return whole[0]
    return None


def raw_place(body, place, depth=12):
    """expand single-definition locals at the root of a place into the place they were copied /
    borrowed from; keeps the raw projection elements (with ADT information)."""
    if depth <= 0:
        return place
    root = place[0]
    d = single_def(body, root)
    if d and d[0] == "assign":
        rv = d[3]
        inner = None
        if rv[0] == "use" and rv[1][0] in ("c", "m"):
            inner = rv[1][1]
        elif rv[0] in ("ref", "ptr", "cfd"):
            inner = rv[-1]
        elif rv[0] == "cast" and rv[2][0] in ("c", "m"):
            inner = rv[2][1]
        if inner is not None:
            return raw_place(body, inner, depth - 1) + place[1:]
    return place


def raw_operand_place(body, op, depth=12):
    if op and op[0] in ("c", "m"):
        return raw_place(body, op[1], depth)
    return None


def place_term(body, place, depth=12, through_calls=False):
    """resolve a place to a ('path', root, elems) term (or another term when the root temp is a value)"""
    root = place[0]
    elems = _proj_elems(place[1:])
    base = local_term(body, root, depth - 1, through_calls)
    if base[0] == "path":
        return ("path", base[1], base[2] + elems)
    if not elems:
        return base
    return ("proj", base, elems)


def local_term(body, local, depth=12, through_calls=False):
    if depth <= 0:
        return ("local", local)
    if local <= body.nargs:
        # return place or argument
        ds = body.defs(local)
        if local != 0 and not [d for d in ds if d[0] in ("assign", "call")]:
            return ("path", local, ())
    d = single_def(body, local)
    if d is None:
        return ("path", local, ()) if not body.defs(local) or body.local_name(local) else ("local", local)
    if d[0] == "call":
        call = d[3]
        if through_calls and call.args and (call.names() & TRANSPARENT_CALLS):
            return operand_term(body, call.args[0], depth - 1, through_calls)
        return ("call", call)
    rv = d[3]
    return rvalue_term(body, rv, depth - 1, through_calls)


def operand_term(body, op, depth=12, through_calls=False):
    if op[0] in ("c", "m"):
        return place_term(body, op[1], depth, through_calls)
    if op[0] == "k":
        return ("const", op[1], op[2], op[3], op[4])
    return ("unknown", "operand")


def rvalue_term(body, rv, depth=12, through_calls=False):
    k = rv[0]
    if k == "use":
        return operand_term(body, rv[1], depth, through_calls)
    if k in ("ref", "ptr", "cfd"):
        return place_term(body, rv[-1], depth, through_calls)
    if k == "cast":
        return operand_term(body, rv[2], depth, through_calls)
    if k == "bin":
        return ("bin", rv[1], operand_term(body, rv[2], depth, through_calls),
                operand_term(body, rv[3], depth, through_calls))
    if k == "un":
        if rv[1] == "PtrMetadata":
            return ("len", operand_term(body, rv[2], depth, through_calls))
        return ("un", rv[1], operand_term(body, rv[2], depth, through_calls))
    if k == "disc":
        return ("disc", place_term(body, rv[1], depth, through_calls))
    if k == "agg":
        return ("agg", rv[1], rv[2], rv[3], [operand_term(body, o, depth, through_calls) for o in rv[4]])
    return ("unknown", k)


def term_paths(term, acc=None):
    """all ('path', root, elems) leaves of a term (does not descend into call arguments)"""
    if acc is None:
        acc = []
    if not isinstance(term, tuple):
        return acc
    if term[0] == "path":
        acc.append(term)
    elif term[0] in ("bin",):
        term_paths(term[2], acc)
        term_paths(term[3], acc)
    elif term[0] in ("un", "len", "disc"):
        term_paths(term[-1], acc)
    elif term[0] == "proj":
        term_paths(term[1], acc)
    elif term[0] == "agg":
        for t in term[4]:
            term_paths(t, acc)
    return acc


def term_str(body, term):
    k = term[0]
    if k == "path":
        nm = body.local_name(term[1]) or ("_%d" % term[1])
        return nm + "".join("." + e if e != "[]" else "[]" for e in term[2])
    if k == "const":
        return "%s" % (term[3] or repr(term[2]))
    if k == "call":
        return "%s(..)" % (term[1].path,)
    if k == "bin":
        return "%s(%s, %s)" % (term[1], term_str(body, term[2]), term_str(body, term[3]))
    if k in ("un",):
        return "%s(%s)" % (term[1], term_str(body, term[2]))
    if k in ("len", "disc"):
        return "%s(%s)" % (k, term_str(body, term[1]))
    if k == "local":
        return body.local_name(term[1]) or "_%d" % term[1]
    if k == "proj":
        return term_str(body, term[1]) + "".join("." + e for e in term[2])
    if k == "agg":
        return "%s{%s}" % (term[2] or term[1], ", ".join(term_str(body, t) for t in term[4]))
    return "?"


def uses_of_local(body, local):
    """blocks / statements where `local` is read (as operand root or place root on the rhs)"""
    out = []

    def in_op(op):
        return op and op[0] in ("c", "m") and op[1][0] == local

    def in_rv(rv):
        k = rv[0]
        if k in ("use", "rep"):
            return in_op(rv[1])
        if k in ("ref", "ptr", "cfd", "disc"):
            return rv[-1][0] == local
        if k == "cast":
            return in_op(rv[2])
        if k == "bin":
            return in_op(rv[2]) or in_op(rv[3])
        if k == "un":
            return in_op(rv[2])
        if k == "agg":
            return any(in_op(o) for o in rv[4])
        return False

    for bi, blk in enumerate(body.blocks):
        for si, s in enumerate(blk["s"]):
            if s[0] == "a" and in_rv(s[2]):
                out.append((bi, si))
        t = blk["t"]
        if t[0] in ("call", "tailcall"):
            if any(in_op(a) for a in t[2]):
                out.append((bi, None))
        elif t[0] == "switch" and in_op(t[1]):
            out.append((bi, None))
        elif t[0] == "assert" and in_op(t[1]):
            out.append((bi, None))
    return out


def forward_derived(body, seeds, through_calls=None):
    """Forward taint closure over locals: a local is derived if it is assigned from an rvalue /
    call result mentioning a derived local.  `seeds`: iterable of locals.
    `through_calls`: None = every call propagates from args to dest; or a predicate(Call)->bool."""
    derived = set(seeds)
    changed = True

    def op_l(op):
        return op[1][0] if op and op[0] in ("c", "m") else None

    def rv_locals(rv):
        k = rv[0]
        if k in ("use", "rep"):
            return [op_l(rv[1])]
        if k in ("ref", "ptr", "cfd", "disc"):
            p = rv[-1]
            return [p[0]] + [e[1] for e in p[1:] if isinstance(e, list) and e[0] == "i"]
        if k == "cast":
            return [op_l(rv[2])]
        if k == "bin":
            return [op_l(rv[2]), op_l(rv[3])]
        if k == "un":
            return [op_l(rv[2])]
        if k == "agg":
            return [op_l(o) for o in rv[4]]
        return []

    while changed:
        changed = False
        for bi, blk in enumerate(body.blocks):
            for s in blk["s"]:
                if s[0] == "a":
                    tgt = s[1][0]
                    if tgt in derived:
                        continue
                    if any(l in derived for l in rv_locals(s[2]) if l is not None):
                        derived.add(tgt)
                        changed = True
            t = blk["t"]
            if t[0] == "call":
                tgt = t[3][0]
                if tgt not in derived and any(op_l(a) in derived for a in t[2]):
                    if through_calls is None or through_calls(body.call_at(bi)):
                        derived.add(tgt)
                        changed = True
    return derived
