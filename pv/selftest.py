"""Thorough tier: test each rule 'the other way' on seeded one-line mutants (DESIGN §2.6).

Every selftest/<prop>/<rule>-<name>.patch is applied to a scratch copy of /repo's working tree (never to /repo),
facts are regenerated for that copy, the property's rules are evaluated on it and the expected rule must fire.
Also replays the independently written seeded changes under seeded/<id>/ that name this property."""
import glob
import json
import os
import shutil
import subprocess
import time

from . import factcache
from .facts import Facts, AnchorMissing

VERIF = factcache.VERIF


def _scratch_copy(tag):
    d = "/var/tmp/parol-verif-mut.%s.%d" % (tag, os.getpid())
    shutil.rmtree(d, ignore_errors=True)
    os.makedirs(d)
    subprocess.check_call(["rsync", "-a", "--exclude", "/target", "--exclude", ".git", "--exclude", "/book",
                           "--exclude", "/examples", factcache.REPO.rstrip("/") + "/", d + "/"])
    return d


def _eval_on(prop, mod, repo, make_ctx):
    ctx = make_ctx(repo)
    fatal = None
    try:
        mod.check(ctx)
    except AnchorMissing as e:
        ctx.bad("anchor", "anchor-missing|%s" % e, "anchor missing: %s" % e)
    except RuntimeError as e:
        fatal = str(e)
    viol = [o for o in ctx.oblig if o["verdict"] == "violation"]
    return viol, fatal


def run(prop, mod, make_ctx, seed=0, log=None):
    """returns dict for the evidence"""
    patches = sorted(glob.glob(os.path.join(VERIF, "selftest", prop, "*.patch")))
    seeds = []
    for m in sorted(glob.glob(os.path.join(VERIF, "seeded", "*", "meta.json"))):
        try:
            meta = json.load(open(m))
        except ValueError:
            continue
        if meta.get("replay") is False:
            continue        # a seed whose base was changed by a later fix: kept for the record, evaluated on its own base
        if prop in (meta.get("property"), ) or prop in meta.get("also_checked_by", []):
            # replay_base.diff (optional) restores the code the seed was written against before patch.diff is applied
            seeds.append((meta["seed_id"], os.path.join(os.path.dirname(m), "patch.diff")))
    items = [("mutant", os.path.basename(p)[:-6], p, os.path.basename(p).split("-")[0]) for p in patches] + \
            [("seeded", sid, p, None) for sid, p in seeds]
    # behaviour-preserving edits: the check must stay silent
    try:
        eq_index = json.load(open(os.path.join(VERIF, "selftest", "equivalent", "index.json")))
    except (OSError, ValueError):
        eq_index = {}
    for fn, props in sorted(eq_index.items()):
        if prop in props:
            items.append(("equivalent", fn[:-6], os.path.join(VERIF, "selftest", "equivalent", fn), None))
    if seed:
        import random
        random.Random(seed).shuffle(items)
    results = []
    for kind, name, patch, expect in items:
        t0 = time.time()
        d = _scratch_copy(prop)
        try:
            r = subprocess.run(["git", "apply", "--unsafe-paths", "--directory", d, patch], cwd="/",
                               stdout=subprocess.PIPE, stderr=subprocess.STDOUT, text=True)
            if r.returncode != 0:
                r = subprocess.run(["patch", "-p1", "-s", "-i", patch], cwd=d, stdout=subprocess.PIPE,
                                   stderr=subprocess.STDOUT, text=True)
            if r.returncode != 0:
                results.append({"kind": kind, "name": name, "status": "patch-does-not-apply"})
                continue
            viol, fatal = _eval_on(prop, mod, d, make_ctx)
            if fatal:
                results.append({"kind": kind, "name": name, "status": "error", "detail": fatal[:300]})
                continue
            rules = sorted({v["rule"] for v in viol})
            if kind == "equivalent":
                results.append({"kind": kind, "name": name, "status": "silent" if not viol else "FALSE-ALARM", "fired": rules,
                                "keys": [v.get("key") for v in viol][:6], "wall_s": round(time.time() - t0, 1)})
                if log:
                    print("[selftest %s] %s %s -> %s" % (prop, kind, name, results[-1]["status"]), file=log)
                continue
            hit = bool(viol) and (expect is None or expect in rules or "anchor" in rules)
            results.append({"kind": kind, "name": name, "status": "detected" if hit else "MISSED",
                            "expected_rule": expect, "fired": rules,
                            "keys": [v.get("key") for v in viol][:6], "wall_s": round(time.time() - t0, 1)})
        finally:
            shutil.rmtree(d, ignore_errors=True)
        if log:
            print("[selftest %s] %s %s -> %s" % (prop, kind, name, results[-1]["status"]), file=log)
    return {
        "mutants_total": len([r for r in results if r["kind"] == "mutant"]),
        "mutants_detected": len([r for r in results if r["kind"] == "mutant" and r["status"] == "detected"]),
        "seeded_total": len([r for r in results if r["kind"] == "seeded"]),
        "seeded_detected": len([r for r in results if r["kind"] == "seeded" and r["status"] == "detected"]),
        "equivalent_total": len([r for r in results if r["kind"] == "equivalent"]),
        "equivalent_silent": len([r for r in results if r["kind"] == "equivalent" and r["status"] == "silent"]),
        "results": results,
    }
