"""C05 LL(k) decision: accept iff strong-LL(k), with the minimal lookahead - thin: the shape of the k search.

Whether the compared sets are the right sets (FIRST_k . FOLLOW_k, C06) and whether disjointness is computed correctly on
the packed tuples are value properties and NOT decided.  What the code's shape decides, all in
parol::analysis::k_decision:
R05.1 success gate: decidable returns Ok(k) for a non-terminal with several productions only on the `true` edge of the
      pairwise test (an Iterator::all over the productions' tuple sets) - on every path.
R05.2 one k per round: the k handed to FirstCache::get, to FollowCache::get, to k_concat and the k that is returned are the same
      variable (a set built for one k is not compared under another).
R05.3 every k is tried: the candidate starts at the constant 1 and its only other definition is `candidate + 1` (or it is the
      variable of a `1..=max_k` range loop) - a necessary condition for the returned k being the smallest.
R05.4 all pairs: the test is `X.iter().all(|a| X.iter().all(|b| same(a,b) || a.is_disjoint(b)))` over one collection X.
R05.5 a failed non-terminal fails the grammar: in calculate_k_tuples / calculate_lookahead_dfas the Result of decidable is
      propagated (and_then / `?`), never replaced by a default (unwrap_or .. / ok() / is_ok()).
R05.7 the compared set of every production is FIRST_k(rhs) . FOLLOW_k(lhs): the k_concat with the follow set is executed on
      every path of the code that builds the compared collection (a first set that is not k-complete must be extended whether or
      not it contains epsilon: `a` is shorter than k = 2).
R05.6 = all C06 rules re-evaluated (the sets the decision compares come from the per-k caches and fixpoint loops).
"""
from .. import cfg
from ..dataflow import operand_term, raw_operand_place, single_def, forward_derived
from ..facts import AnchorMissing
from .common import PA, where, short, guards_on_all_paths, closure_of_arg_any

CRATES = ["parol.lib"]
META = {
    "explanation": "Decides the shape of the lookahead search only: success is gated by the pairwise test, one k is used consistently "
                   "per round, every k from 1 upward is tried, all pairs of productions are compared, and a non-terminal that "
                   "cannot be decided makes the pipeline fail. The sets that are compared and the disjointness of packed tuples "
                   "are NOT decided by this family.",
}
KD = "parol::analysis::k_decision::"


def _k_origin(body, op, kname):
    """the operand is the candidate-k variable (directly, or through the capture of a closure); the chain of copies / borrows
    is followed only up to the first user-named local"""
    hops = 0
    while op and op[0] in ("c", "m") and hops < 8:
        hops += 1
        place = op[1]
        l = place[0]
        flds = [e for e in place[1:] if isinstance(e, list) and e[0] == "f"]
        if body.kind == "Closure" and l == 1 and flds:
            return flds[-1][2].endswith(kname)
        if body.local_name(l) and not flds:
            return body.local_name(l) == kname
        dd = single_def(body, l)
        if dd and dd[0] == "assign" and dd[3][0] == "use":
            op = dd[3][1]
            continue
        if dd and dd[0] == "assign" and dd[3][0] in ("ref", "ptr", "cfd"):
            op = ["c", dd[3][-1]]
            continue
        return False
    return False


def _first_named(body, op, depth=10):
    """name of the first user-named local (or captured variable) on the chain of borrows / iter() / deref calls behind an
    operand"""
    while depth > 0 and op and op[0] in ("c", "m"):
        depth -= 1
        rp = raw_operand_place(body, op)
        if not rp:
            return None
        if body.local_name(rp[0]) and not (body.kind == "Closure" and rp[0] == 1):
            return body.local_name(rp[0])
        if body.kind == "Closure" and rp[0] == 1:
            names = [e[2] for e in rp[1:] if isinstance(e, list) and e[0] == "f"]
            if names:
                return names[-1].replace("_ref__", "")
        dd = single_def(body, rp[0])
        if dd and dd[0] == "call" and dd[3].args:
            op = dd[3].args[0]
            continue
        return None
    return None


def _range_from_one(body, cand):
    for x in body.defs(cand):
        if x[0] != "assign" or x[3][0] != "use":
            return False
        t = operand_term(body, x[3][1])
        while t[0] == "proj":
            t = t[1]
        if t[0] != "call" or (t[1].path or "").split("::")[-1] != "next":
            return False
        st = t[1].self_ty or ""
        if "Range" not in st or "Rev" in st or "StepBy" in st or "Skip" in st:
            return False
        # the iterator's construction: RangeInclusive::new(1, _) / Range { start: 1, .. } behind into_iter()
        it = operand_term(body, t[1].args[0], through_calls=True)
        hops = 0
        while hops < 6:
            hops += 1
            if it[0] == "call":
                n = (it[1].path or "").split("::")[-1]
                if n == "new" and "RangeInclusive" in (it[1].path or ""):
                    a0 = operand_term(body, it[1].args[0])
                    return a0[0] == "const" and a0[2] == 1
                it = operand_term(body, it[1].args[0], through_calls=True) if it[1].args else ("unknown",)
                continue
            if it[0] == "agg" and "Range" in str(it[2]):
                a0 = it[4][0]
                return a0[0] == "const" and a0[2] == 1
            break
        return False
    return True


def check(ctx):
    facts = ctx.facts()
    d = facts.body(KD + "decidable")
    fam = facts.family(d)
    # the candidate: the local that is returned in Ok(..) by move/copy (not the constant 0 of the trivial case)
    oks = [(bi, rv, line) for bi, si, p, rv, line, mac in d.assigns()
           if p == [0] and rv[0] == "agg" and rv[2] == "std::result::Result" and rv[3] == "Ok"]
    cand = None
    ok_blocks = []
    for bi, rv, line in oks:
        o = rv[4][0]
        hops = 0
        while o[0] in ("c", "m") and hops < 6:
            hops += 1
            l = o[1][0]
            if d.local_name(l) and len(o[1]) == 1:
                cand = l
                ok_blocks.append((bi, line))
                break
            dd = single_def(d, l)
            if dd and dd[0] == "assign" and dd[3][0] == "use":
                o = dd[3][1]
                continue
            break
    if cand is None:
        raise AnchorMissing("decidable: no Ok(<variable>) found (the k search)")
    kname = d.local_name(cand)
    # R05.1
    for bi, line in ok_blocks:
        gate = None
        for a, k, truth in guards_on_all_paths(d, bi):
            if k and k[0] == "call" and (k[1].path or "").split("::")[-1] == "all" and truth:
                gate = k[1]
        ctx.check(gate is not None, "R05.1", "decidable|ok-behind-pairwise-test",
                  "Ok(%s) is returned only on the true edge of the all-pairs test" % kname,
                  "decidable can return Ok(%s) without the pairwise disjointness test having succeeded" % kname, where(d, line))
        # R05.4
        if gate is not None:
            oname = _first_named(d, gate.args[0])
            cl = closure_of_arg_any(facts, d, gate)
            inner_ok = False
            disj = False
            same_coll = False
            if cl is not None:
                for c in cl.calls():
                    if (c.path or "").split("::")[-1] == "all":
                        iname = _first_named(cl, c.args[0])
                        same_coll = bool(oname) and iname == oname
                        icl = closure_of_arg_any(facts, cl, c)
                        if icl is not None:
                            inner_ok = True
                            disj = any((x.path or "").endswith("KTuples::is_disjoint") for x in icl.calls())
                            # the only pair exempted from the disjointness test is a production with itself: exactly one
                            # comparison (==) and no arithmetic in the inner closure
                            cmps = [rv[1] for _bi, _si, _p, rv, _l, _m in icl.assigns() if rv[0] == "bin"] + \
                                [(x.path or "").split("::")[-1] for x in icl.calls()
                                 if (x.path or "").split("::")[-1] in ("eq", "ne", "lt", "le", "gt", "ge", "cmp", "partial_cmp")]
                            if sorted(c.lower() for c in cmps) != ["eq"]:
                                disj = False
            ctx.check(inner_ok and disj and same_coll, "R05.4", "decidable|all-pairs",
                      "the test quantifies over all pairs of one collection, uses is_disjoint and exempts only i == j",
                      "the lookahead test of decidable is not `all x all` over one collection with is_disjoint (nested all: %s, "
                      "is_disjoint with the single exemption i == j: %s, same collection: %s): some pair of productions is never compared"
                      % (inner_ok, disj, same_coll), where(d, gate.line))
    # R05.2
    uses = []
    for b in fam:
        for c in b.calls():
            n = (c.path or "")
            if n in (KD + "FirstCache::get", KD + "FollowCache::get"):
                uses.append((b, c, c.args[1]))
            elif n.endswith("KTuples::k_concat") and len(c.args) >= 3:
                uses.append((b, c, c.args[2]))
    bad = [(b, c) for b, c, o in uses if not _k_origin(b, o, kname)]
    ctx.check(len(uses) >= 3 and not bad, "R05.2", "decidable|one-k-per-round",
              "FirstCache::get, FollowCache::get and k_concat all receive `%s`" % kname,
              "%s in decidable receive(s) a k that is not the candidate `%s` of this round: sets built for different k are "
              "compared" % (sorted({short(c.path) for _b, c in bad}), kname), where(bad[0][0], bad[0][1].line) if bad else where(d))
    # R05.3
    defs = [x for x in d.defs(cand) if x[0] == "assign"]
    init = [x for x in defs if x[3][0] == "use" and x[3][1][0] == "k"]
    steps = []
    other = []
    for x in defs:
        rv = x[3]
        if rv[0] == "use" and rv[1][0] == "k":
            continue
        t = operand_term(d, rv[1]) if rv[0] == "use" else None
        ok_step = False
        if t and t[0] == "proj":
            t = t[1]
        if t and t[0] == "bin" and t[1].startswith("Add"):
            a, b2 = t[2], t[3]
            ok_step = a[0] in ("path", "local") and a[1] == cand and b2[0] == "const" and b2[2] == 1
        (steps if ok_step else other).append(d.line_of_block(x[1]))
    okr = len(init) == 1 and init[0][3][1][2] == 1 and len(steps) >= 1 and not other
    if not okr and not init and not steps:
        # the equivalent `for k in 1..=max_k` form: the candidate is the item of a range iterator that starts at the constant 1
        okr = _range_from_one(d, cand)
    ctx.check(okr, "R05.3", "decidable|every-k-is-tried",
              "`%s` starts at 1 and is only ever incremented by 1" % kname,
              "the candidate `%s` does not run through 1, 2, 3, ... (initial values %s, other definitions at lines %s): the "
              "returned lookahead need not be the smallest" % (kname, [x[3][1][2] for x in init], other), where(d))
    # R05.5
    n = 0
    for root in (KD + "calculate_k_tuples", "parol::analysis::k_decision::calculate_lookahead_dfas"):
        rb = facts.body(root)
        for b in facts.family(rb):
            for c in b.calls():
                if c.path in (KD + "decidable", KD + "calculate_k_tuples"):
                    n += 1
                    der = forward_derived(b, [c.dest[0]], through_calls=lambda x: False) if c.dest else set()
                    swallowed = []
                    for cc in b.calls():
                        nm = (cc.path or "").split("::")[-1]
                        if nm in ("unwrap_or", "unwrap_or_else", "unwrap_or_default", "ok", "is_ok", "is_err", "unwrap_or_else"):
                            rp = raw_operand_place(b, cc.args[0]) if cc.args else None
                            if rp and rp[0] in der:
                                swallowed.append((nm, cc.line))
                    ctx.check(not swallowed, "R05.5", "%s|%s-error-propagated" % (short(b.path), short(c.path).split("::")[-1]),
                              "the Result of %s is propagated" % short(c.path),
                              "%s replaces a failed %s by a default (%s): a grammar with an undecidable non-terminal is accepted"
                              % (short(b.path), short(c.path), swallowed), where(b, c.line))
    ctx.require_floor("R05.5", "decision_call_sites", n, 2)
    follow_concatenated_for_every_production(ctx, facts)
    # R05.6 = C06's rules (added after seed C05-a): the decision compares FIRST_k . FOLLOW_k sets taken from the per-k caches
    from . import c06
    c06.check(ctx)



def follow_concatenated_for_every_production(ctx, facts):
    """R05.7 (added after seed C05-b)"""
    KC = "parol::analysis::k_tuples::KTuples::k_concat"
    root = facts.body(KD + "decidable")
    n = 0
    for fb in facts.family(root):
        for c in fb.calls():
            if c.path != KC:
                continue
            n += 1
            if fb is root:
                extra = []
                for a, k, truth in guards_on_all_paths(fb, c.bb):
                    if k and (k[0] == "qm" or (k[0] == "disc-call" and "std::iter::Iterator::next" in k[1].names())):
                        continue
                    # conditions shared with the pairwise test are preconditions of the whole round
                    alls = [x for x in fb.calls() if (x.path or "").split("::")[-1] == "all"]
                    if alls and all(cfg.Dom(fb).dominates(a, x.bb) for x in alls):
                        continue
                    extra.append(a)
                ok = not extra
                how = "branch blocks %s" % extra
            else:
                rets = fb.return_blocks()
                skip = [r for r in rets if r in cfg.reachable_from(fb, 0, avoid_blocks=[c.bb])]
                ok = not skip
                how = "a path through the closure returns without it"
            ctx.check(ok, "R05.7", "decidable|follow-concatenated-on-every-path|%d" % n,
                      "every production's first set is concatenated with the follow set of its non-terminal",
                      "decidable concatenates FOLLOW_k only under a condition (%s): a first set that is shorter than k but does not "
                      "contain epsilon keeps its short tuples, two productions whose look-ahead differs only behind them are "
                      "compared on prefixes (a conflict is missed or a smaller k reported)" % how, where(fb, c.line))
    ctx.require_floor("R05.7", "follow_concat_sites", n, 1)
