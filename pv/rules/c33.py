"""C33 Generated identifiers are unique and valid - thin: the uniqueness discipline.

R33.1 RN.1 for the generators: terminal names (generate_terminal_names, GrammarConfig::generate_augmented_terminal_names)
      exclude the names generated so far (fold accumulator); Scope::make_unique_name excludes Scope.names;
      the root type name excludes all non-terminal type names.
R33.2 who_may_write(Scope.names): only Scope::new and Scope::add_name.
R33.3 every name handed to Scope::add_name at the symbol-creating sites of symbol_table.rs derives from
      make_unique_name of the same scope (or is the UNNAMED sentinel).
R33.4 terminal names built from punctuation: the replacement table only contains identifier characters and the assembled
      name is returned unchanged only after it was tested to contain an alphanumeric character and not to start with a
      digit.
R33.5 keyword escaping (NamingHelper): (a) the keyword table consulted by is_rust_keyword contains every strict and reserved
      keyword of the Rust reference (edition 2024); (b) a name is given the raw-identifier prefix `r#` only on paths that
      excluded the keywords that cannot be raw identifiers (crate, self, Self, super); (c) both case converters
      (to_lower_snake_case, to_upper_camel_case) return through escape_rust_keyword on every path (`Self` is a keyword that
      starts with an upper-case letter).
R33.7 the name compared with the scope's names is the name stored: make_unique_name returns generate_name's result unchanged and
      its argument is already case-converted.
R33.6 the case converters test for the degenerate result (no alphanumeric character): `_` and `__` are accepted
      non-terminal names.  Both converters lack the test today: known finding D18.
Validity of the other identifiers (remaining string computations in NamingHelper) is NOT decided."""
from ..callgraph import CallGraph
from ..dataflow import operand_term, raw_operand_place, single_def, forward_derived
from .common import PA, where, short, fn_key, recv_fields, all_places
from . import rn

CRATES = ["parol.lib"]
META = {
    "explanation": "Decides the uniqueness discipline of C33: names that must be distinct are produced by generate_name "
                   "against the set of names already taken in their table / scope, and the scope's name list has no other "
                   "writer. Identifier validity is a string property and not decided.",
}
SCOPE = "parol::generators::symbol_table::Scope"


def check(ctx):
    facts = ctx.facts()
    cg = CallGraph(facts)
    rn.rn0(ctx, facts, "R33.0")
    rn.rn1(ctx, facts, cg, "R33.1", ["parol::generators"], 4)
    writers = set()
    for b in facts.in_crate(PA):
        for bi, kind, p, line in all_places(b):
            if kind == "w" and isinstance(p[-1], list) and p[-1][0] == "f" and p[-1][2] == "names" and p[-1][3] == SCOPE:
                writers.add(b.root_fn(facts).path)
        for c in b.calls():
            n = (c.path or "").split("::")[-1]
            if n in ("push", "insert", "extend", "remove", "clear", "pop", "truncate", "retain", "dedup", "sort") \
                    and "std::string::String" in (c.self_ty or ""):
                rp = raw_operand_place(b, c.args[0]) if c.args else None
                if rp and any(isinstance(e, list) and e[0] == "f" and e[2] == "names" and e[3] == SCOPE for e in rp[1:]):
                    writers.add(b.root_fn(facts).path)
    allowed = {SCOPE + "::add_name", SCOPE + "::new"}
    ctx.check(writers and writers <= allowed, "R33.2", "Scope.names|writers",
              "Scope.names is written only by %s" % sorted(short(w) for w in writers),
              "Scope.names is written by %s (allowed: add_name/new): names can enter a scope without the uniqueness check"
              % sorted(short(w) for w in writers - allowed), "crates/parol/src/generators/symbol_table.rs")
    # R33.3
    n = 0
    for b in facts.in_crate(PA):
        if b.module != "parol::generators::symbol_table":
            continue
        for c in b.calls():
            if c.path == SCOPE + "::add_name":
                n += 1
                t = operand_term(b, c.args[1])
                ok = False
                why = t[0]
                if t[0] == "call":
                    ok = t[1].path in (SCOPE + "::make_unique_name",) or (t[1].path or "").endswith("::to_string") \
                        and "UNNAMED" in str(t[1].args)
                    why = short(t[1].path or "?")
                elif t[0] in ("path", "local"):
                    # a parameter / local: must derive from make_unique_name in this body or be a parameter of a helper
                    der = set()
                    for cc in b.calls():
                        if cc.path == SCOPE + "::make_unique_name":
                            der |= forward_derived(b, [cc.dest[0]])
                    ok = t[1] in der or (1 <= t[1] <= b.nargs)
                    why = "local/parameter"
                ctx.check(ok, "R33.3", "%s|add_name-argument" % fn_key(b, facts),
                          "the name added to the scope comes from make_unique_name (or is passed through by a helper)",
                          "a name is added to a scope without make_unique_name (%s)" % why, where(b, c.line))
    ctx.require_floor("R33.3", "add_name_sites", n, 2)
    r33_4(ctx, facts)
    r33_5(ctx, facts)
    r33_6(ctx, facts)
    r33_7(ctx, facts)


def r33_7(ctx, facts):
    """R33.7 (added after seed C33-b) the name that is compared with the names of the scope is the name that is stored: every value
    Scope::make_unique_name returns is the result of generate_name itself (or the UNNAMED constant) - nothing is applied to it
    afterwards.  Scope.names holds names in their final spelling (case conversion, keyword escaping); a conversion applied after
    the uniqueness check compares a raw name with converted ones, so `foo_bar` and `FooBar` both end up as `FooBar`."""
    from ..dataflow import raw_place
    b = facts.body(SCOPE + "::make_unique_name")
    gens = [c for c in b.calls() if (c.path or "").split("::")[-1] == "generate_name"]
    if not gens:
        raise AnchorMissing("Scope::make_unique_name no longer calls generate_name")
    moved = set()
    for g in gens:
        moved.add(g.dest[0])
    changed = True
    while changed:
        changed = False
        for bi, si, p, rv, line, mac in b.assigns():
            if len(p) == 1 and p[0] not in moved and rv[0] == "use" and rv[1][0] in ("c", "m") and len(rv[1][1]) == 1 \
                    and rv[1][1][0] in moved:
                moved.add(p[0])
                changed = True
    n = 0
    for c in b.calls():
        if c.dest == [0]:
            n += 1
            last = (c.path or "").split("::")[-1]
            unnamed = bool(c.args) and (lambda t: t[0] == "const" and (t[3] or "").endswith("UNNAMED_TYPE"))(operand_term(b, c.args[0]))
            ok = c in gens or (last in ("to_string", "to_owned", "from", "into") and unnamed)
            ctx.check(ok, "R33.7", "make_unique_name|returns-checked-name|%s" % (last if c.path else "indirect-call"),
                      "make_unique_name returns %s" % ("the result of generate_name" if c in gens else "the UNNAMED constant"),
                      "make_unique_name returns the result of %s, not of generate_name: the name is changed after it was compared "
                      "with the names of the scope (or is not compared at all)" % (short(c.path) if c.path else "an indirect call"),
                      where(b, c.line))
    for bi, si, p, rv, line, mac in b.assigns():
        if p == [0]:
            n += 1
            ok = rv[0] == "use" and rv[1][0] in ("c", "m") and len(rv[1][1]) == 1 and rv[1][1][0] in moved
            ctx.check(ok, "R33.7", "make_unique_name|returns-checked-name|assign",
                      "make_unique_name returns the result of generate_name (moved)",
                      "make_unique_name returns a value that is not the unchanged result of generate_name", where(b, line))
    ctx.require_floor("R33.7", "make_unique_name_returns", n, 2)
    # the converted name goes *into* generate_name at the symbol-creating sites: the preferred-name argument of
    # make_unique_name is the result of a NamingHelper case converter
    m = 0
    for fb in facts.in_crate(PA):
        if fb.module != "parol::generators::symbol_table":
            continue
        for c in fb.calls():
            if c.path == SCOPE + "::make_unique_name" and len(c.args) > 1:
                m += 1
                t = operand_term(fb, c.args[1])
                conv = t[0] == "call" and "NamingHelper" in (t[1].path or "") and (t[1].path or "").split("::")[-1].startswith("to_")
                ctx.check(conv, "R33.7", "%s|preferred-name-is-converted" % fn_key(fb, facts),
                          "the preferred name handed to make_unique_name is already case-converted (%s)"
                          % (short(t[1].path) if t[0] == "call" else t[0]),
                          "the name handed to make_unique_name is not the result of a NamingHelper case converter: the uniqueness "
                          "check then runs on a spelling that is not the one stored in the scope", where(fb, c.line))
    ctx.require_floor("R33.7", "make_unique_name_sites", m, 2)


def r33_4(ctx, facts):
    """terminal names built from punctuation: (a) every replacement string of the character table is made of identifier
    characters, (b) the assembled name is returned unchanged only if it was tested to contain an alphanumeric character
    and not to start with a digit - a name made of underscores only (`_`, `__`) is not a valid Rust identifier."""
    import re
    from ..dataflow import operand_term, single_def
    from .common import transitive_control_deps, control_dependence_no_errors, str_consts, closure_of_arg_any
    G = "parol::generators::terminal_name_generator::generate_terminal_name::generate_name"
    g = facts.body(G)
    entries = []
    for cl in facts.closures_of(g):
        if cl.parent != G:
            continue
        for sconst, line in str_consts(cl):
            entries.append((sconst, line, cl))
    bad = [(e, l) for e, l, _c in entries if not re.fullmatch(r"[A-Za-z0-9_]*", e)]
    ctx.check(len(entries) >= 30 and not bad, "R33.4", "terminal-name-table|identifier-characters",
              "all %d replacement strings of the punctuation table consist of identifier characters" % len(entries),
              "replacement strings %s of the punctuation table contain characters that cannot occur in an identifier" % bad,
              where(g))
    # (b) plain return of the assembled name
    cd = control_dependence_no_errors(g)
    plain = []
    for bi, si, p, rv, line, mac in g.assigns():
        if p == [0] and rv[0] == "use" and rv[1][0] in ("c", "m"):
            plain.append((bi, line))
    if not plain:
        raise __import__("pv.facts", fromlist=["AnchorMissing"]).AnchorMissing("generate_name: no plain return of the name")
    for bi, line in plain:
        tests = {}
        from .. import cfg as _cfg
        domg = _cfg.Dom(g)
        for a, s, k in transitive_control_deps(g, bi, cd=cd):
            if not domg.dominates(a, bi):
                continue
            if k and k[0] == "call" and (k[1].path or "").split("::")[-1] in ("contains", "starts_with", "any", "all", "is_empty"):
                cl = closure_of_arg_any(facts, g, k[1])
                pred = None
                if cl is not None:
                    names = {(c.path or "").split("::")[-1] for c in cl.calls()}
                    pred = "alphanumeric" if "is_alphanumeric" in names or "is_alphabetic" in names else \
                        "numeric" if names & {"is_numeric", "is_ascii_digit", "is_digit"} else None
                vals = [v for v, t in g.switch_edges(a) if t == s]
                truth = any(v != 0 for v in vals)
                if k[2]:
                    truth = not truth
                tests[((k[1].path or "").split("::")[-1], pred)] = truth
        has_alnum = tests.get(("contains", "alphanumeric")) is True or tests.get(("any", "alphanumeric")) is True
        no_digit_start = tests.get(("starts_with", "numeric")) is False
        ctx.check(has_alnum and no_digit_start, "R33.4", "generate_name|plain-name-is-identifier",
                  "the assembled name is returned as is only when it contains an alphanumeric character and does not start "
                  "with a digit",
                  "generate_name returns the assembled name without checking that it %s: a terminal made of unlisted symbols "
                  "only (e.g. the euro sign) is named `_`, which is not a valid Rust identifier (the generated node-kind enum does not "
                  "compile)" % ("contains an alphanumeric character" if not has_alnum else "does not start with a digit"),
                  where(g, line))


# The Rust Reference, "Keywords": strict keywords (incl. 2018+ async/await/dyn), reserved keywords (incl. 2018 `try`, 2024 `gen`)
RUST_KEYWORDS = ("as break const continue crate else enum extern false fn for if impl in let loop match mod move mut pub ref "
                 "return self Self static struct super trait true type unsafe use where while async await dyn "
                 "abstract become box do final macro override priv typeof unsized virtual yield try gen").split()
# "Raw identifiers": `crate`, `self`, `super`, `Self` (and `_`) cannot be raw identifiers
NON_RAW = {"crate", "self", "Self", "super"}
NH = "parol::generators::naming_helper::NamingHelper::"


def _named_tables(facts, bodies):
    out = {}
    for b in bodies:
        for blk in b.blocks:
            for st in blk["s"]:
                if st[0] == "a" and st[2][0] == "use" and st[2][1][0] == "k" and st[2][1][3] \
                        and st[2][1][1].replace("'static ", "") == "&[&str]":
                    name = st[2][1][3]
                    try:
                        v = facts.const(name)
                    except Exception:
                        v = None
                    if isinstance(v, list):
                        out[name] = v
    return out


def _const_strs(facts, b, c):
    """string constants / constant string tables among the arguments of a call"""
    out = set()
    for o in c.args:
        t = operand_term(b, o)
        if t[0] != "const":
            continue
        if isinstance(t[2], str):
            out.add(t[2])
        elif t[3]:
            try:
                v = facts.const(t[3])
            except Exception:
                v = None
            if isinstance(v, list):
                out |= set(v)
    return out


def r33_5(ctx, facts):
    from ..artefact.rx import decode_fmt_template
    from .common import transitive_control_deps, control_dependence_no_errors
    isk = facts.body(NH + "is_rust_keyword")
    tabs = _named_tables(facts, facts.family(isk))
    kw = set()
    for v in tabs.values():
        kw |= set(v)
    missing = [k for k in RUST_KEYWORDS if k not in kw]
    ctx.check(bool(tabs) and not missing, "R33.5", "keyword-table|complete",
              "the table consulted by is_rust_keyword (%s, %d entries) contains all %d strict/reserved Rust keywords"
              % (sorted(short(t) for t in tabs), len(kw), len(RUST_KEYWORDS)),
              "the keyword table consulted by is_rust_keyword lacks %s: a non-terminal of that name yields a member / method "
              "name that is a bare keyword" % missing, where(isk))
    # (b) every place that builds an `r#` name
    n = 0
    for b in facts.in_crate(PA):
        if not (b.module or "").startswith("parol::generators"):
            continue
        for bi, blk in enumerate(b.blocks):
            tmpl = None
            for st in blk["s"]:
                if st[0] == "a" and st[2][0] == "use" and st[2][1][0] == "k" and isinstance(st[2][1][2], str) \
                        and st[2][1][1].startswith("&[u8;"):
                    try:
                        pieces = decode_fmt_template(st[2][1][2])
                    except Exception:
                        continue
                    if len(pieces) > 1 and pieces[0] == ("lit", "r#") and pieces[1][0] == "arg":
                        tmpl = st[3]
            if tmpl is None:
                continue
            n += 1
            cd = control_dependence_no_errors(b)
            from .. import cfg as _cfg
            domx = _cfg.Dom(b)
            excluded = set()
            for a, succ, k in transitive_control_deps(b, bi, cd=cd):
                if not k or k[0] != "call":
                    continue
                c, neg = k[1], k[2]
                vals = [v for v, t in b.switch_edges(a) if t == succ]
                truth = any(v != 0 for v in vals)
                if neg:
                    truth = not truth
                nm = (c.path or "").split("::")[-1]
                if (nm in ("contains", "eq") and not truth) or (nm == "ne" and truth):
                    # the exclusion must hold on *every* path to the `r#` block: the test dominates it and the block is
                    # reachable from the test only through the excluding edge (`false && test` bypasses the test)
                    from .common import only_via_edge
                    edge = {0} if ((nm != "ne") != neg) else {None}
                    if domx.dominates(a, bi) and only_via_edge(b, a, edge, bi):
                        excluded |= _const_strs(facts, b, c)
            rest = sorted((NON_RAW & kw) - excluded)
            ctx.check(not rest, "R33.5", "%s|raw-prefix-excludes-non-raw-keywords" % fn_key(b, facts),
                      "the `r#` prefix is applied only after %s were excluded" % sorted(NON_RAW),
                      "the `r#` prefix is also applied to %s, which cannot be raw identifiers: a non-terminal named `self`, "
                      "`super` or `crate` yields `r#self` etc. in the generated code, which does not compile" % rest,
                      where(b, tmpl))
    ctx.require_floor("R33.5", "raw_prefix_sites", n, 1)
    # (c) the case converters return through escape_rust_keyword
    for fn in ("to_lower_snake_case", "to_upper_camel_case"):
        b = facts.body(NH + fn)
        bad = []
        ndef = 0
        for d in b.defs(0):
            ndef += 1
            if d[0] == "call" and d[3].path == NH + "escape_rust_keyword":
                continue
            bad.append(b.line_of_block(d[1]))
        ctx.check(bool(ndef) and not bad, "R33.5", "%s|returns-through-escape" % fn,
                  "every return value of %s is the result of escape_rust_keyword" % fn,
                  "%s returns a name that did not pass escape_rust_keyword (lines %s): %s" % (
                      fn, bad, "`Self` is a keyword that starts with an upper-case letter; a non-terminal named `self` yields "
                      "`pub struct Self`" if fn == "to_upper_camel_case" else "keyword member names are emitted bare"),
                  where(b))


def r33_6(ctx, facts):
    """names made of underscores only: PAR identifiers match [a-zA-Z_][a-zA-Z0-9_]*, so `_` and `__` are accepted non-terminal
    names; the case converters drop / collapse underscores, so each needs an explicit test for the degenerate result
    (empty, or `_`, which is a reserved identifier). Accepted tests: is_empty / contains|any|all over a char predicate /
    comparison with a string constant made of underscores."""
    from .common import closure_of_arg_any
    for fn in ("to_lower_snake_case", "to_upper_camel_case"):
        b = facts.body(NH + fn)
        tests = []
        for c in b.calls():
            nm = (c.path or "").split("::")[-1]
            if nm == "is_empty":
                tests.append("is_empty")
            elif nm in ("contains", "any", "all", "trim_matches", "trim_start_matches", "find"):
                cl = closure_of_arg_any(facts, b, c)
                names = {(x.path or "").split("::")[-1] for x in cl.calls()} if cl is not None else set()
                if names & {"is_alphanumeric", "is_alphabetic", "is_ascii_alphanumeric", "is_ascii_alphabetic"}:
                    tests.append(nm + "(alphanumeric)")
            elif nm in ("eq", "ne"):
                if any(s and set(s) <= {"_"} or s == "" for s in _const_strs(facts, b, c)):
                    tests.append("== \"_\"")
        ctx.check(bool(tests), "R33.6", "%s|degenerate-name" % fn,
                  "%s tests its result for the degenerate (empty / underscore-only) case: %s" % (fn, tests),
                  "%s never tests for a result without an alphanumeric character: the accepted non-terminal names `_` / `__` "
                  "yield %s in the generated code, which does not compile (probe: notes/repro/probe33_underscore_nt.par)"
                  % (fn, "the method / member name `_`" if fn == "to_lower_snake_case" else "an empty type name (`pub struct  <'t>`)"),
                  where(b))
