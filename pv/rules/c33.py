"""C33 Generated identifiers are unique and valid - thin: the uniqueness discipline.

R33.1 RN.1 for the generators: terminal names (generate_terminal_names, GrammarConfig::generate_augmented_terminal_names)
      exclude the names generated so far (fold accumulator); Scope::make_unique_name excludes Scope.names;
      the root type name excludes all non-terminal type names.
R33.2 who_may_write(Scope.names): only Scope::new and Scope::add_name.
R33.3 every name handed to Scope::add_name at the symbol-creating sites of symbol_table.rs derives from
      make_unique_name of the same scope (or is the UNNAMED sentinel).
R33.4 terminal names built from punctuation: the replacement table only contains identifier characters and the assembled
      name is returned unchanged only after it was tested to contain an alphanumeric character and not to start with a
      digit.
Validity of the other identifiers (string computations in NamingHelper) is NOT decided."""
from ..callgraph import CallGraph
from ..dataflow import operand_term, raw_operand_place, single_def, forward_derived
from .common import PA, where, short, fn_key, recv_fields, all_places
from . import rn

CRATES = ["parol.lib"]
META = {
    "explanation": "Decides the uniqueness discipline of C33: names that must be distinct are produced by generate_name "
                   "against the set of names already taken in their table / scope, and the scope's name list has no other "
                   "writer. Identifier validity is a string property and not decided.",
}
SCOPE = "parol::generators::symbol_table::Scope"


def check(ctx):
    facts = ctx.facts()
    cg = CallGraph(facts)
    rn.rn1(ctx, facts, cg, "R33.1", ["parol::generators"], 4)
    writers = set()
    for b in facts.in_crate(PA):
        for bi, kind, p, line in all_places(b):
            if kind == "w" and isinstance(p[-1], list) and p[-1][0] == "f" and p[-1][2] == "names" and p[-1][3] == SCOPE:
                writers.add(b.root_fn(facts).path)
        for c in b.calls():
            n = (c.path or "").split("::")[-1]
            if n in ("push", "insert", "extend", "remove", "clear", "pop", "truncate", "retain", "dedup", "sort") \
                    and "std::string::String" in (c.self_ty or ""):
                rp = raw_operand_place(b, c.args[0]) if c.args else None
                if rp and any(isinstance(e, list) and e[0] == "f" and e[2] == "names" and e[3] == SCOPE for e in rp[1:]):
                    writers.add(b.root_fn(facts).path)
    allowed = {SCOPE + "::add_name", SCOPE + "::new"}
    ctx.check(writers and writers <= allowed, "R33.2", "Scope.names|writers",
              "Scope.names is written only by %s" % sorted(short(w) for w in writers),
              "Scope.names is written by %s (allowed: add_name/new): names can enter a scope without the uniqueness check"
              % sorted(short(w) for w in writers - allowed), "crates/parol/src/generators/symbol_table.rs")
    # R33.3
    n = 0
    for b in facts.in_crate(PA):
        if b.module != "parol::generators::symbol_table":
            continue
        for c in b.calls():
            if c.path == SCOPE + "::add_name":
                n += 1
                t = operand_term(b, c.args[1])
                ok = False
                why = t[0]
                if t[0] == "call":
                    ok = t[1].path in (SCOPE + "::make_unique_name",) or (t[1].path or "").endswith("::to_string") \
                        and "UNNAMED" in str(t[1].args)
                    why = short(t[1].path or "?")
                elif t[0] in ("path", "local"):
                    # a parameter / local: must derive from make_unique_name in this body or be a parameter of a helper
                    der = set()
                    for cc in b.calls():
                        if cc.path == SCOPE + "::make_unique_name":
                            der |= forward_derived(b, [cc.dest[0]])
                    ok = t[1] in der or (1 <= t[1] <= b.nargs)
                    why = "local/parameter"
                ctx.check(ok, "R33.3", "%s|add_name-argument" % fn_key(b, facts),
                          "the name added to the scope comes from make_unique_name (or is passed through by a helper)",
                          "a name is added to a scope without make_unique_name (%s)" % why, where(b, c.line))
    ctx.require_floor("R33.3", "add_name_sites", n, 2)
    r33_4(ctx, facts)


def r33_4(ctx, facts):
    """terminal names built from punctuation: (a) every replacement string of the character table is made of identifier
    characters, (b) the assembled name is returned unchanged only if it was tested to contain an alphanumeric character
    and not to start with a digit - a name made of underscores only (`_`, `__`) is not a valid Rust identifier."""
    import re
    from ..dataflow import operand_term, single_def
    from .common import transitive_control_deps, control_dependence_no_errors, str_consts, closure_of_arg_any
    G = "parol::generators::terminal_name_generator::generate_terminal_name::generate_name"
    g = facts.body(G)
    entries = []
    for cl in facts.closures_of(g):
        if cl.parent != G:
            continue
        for sconst, line in str_consts(cl):
            entries.append((sconst, line, cl))
    bad = [(e, l) for e, l, _c in entries if not re.fullmatch(r"[A-Za-z0-9_]*", e)]
    ctx.check(len(entries) >= 30 and not bad, "R33.4", "terminal-name-table|identifier-characters",
              "all %d replacement strings of the punctuation table consist of identifier characters" % len(entries),
              "replacement strings %s of the punctuation table contain characters that cannot occur in an identifier" % bad,
              where(g))
    # (b) plain return of the assembled name
    cd = control_dependence_no_errors(g)
    plain = []
    for bi, si, p, rv, line, mac in g.assigns():
        if p == [0] and rv[0] == "use" and rv[1][0] in ("c", "m"):
            plain.append((bi, line))
    if not plain:
        raise __import__("pv.facts", fromlist=["AnchorMissing"]).AnchorMissing("generate_name: no plain return of the name")
    for bi, line in plain:
        tests = {}
        for a, s, k in transitive_control_deps(g, bi, cd=cd):
            if k and k[0] == "call" and (k[1].path or "").split("::")[-1] in ("contains", "starts_with", "any", "all", "is_empty"):
                cl = closure_of_arg_any(facts, g, k[1])
                pred = None
                if cl is not None:
                    names = {(c.path or "").split("::")[-1] for c in cl.calls()}
                    pred = "alphanumeric" if "is_alphanumeric" in names or "is_alphabetic" in names else \
                        "numeric" if names & {"is_numeric", "is_ascii_digit", "is_digit"} else None
                vals = [v for v, t in g.switch_edges(a) if t == s]
                truth = any(v != 0 for v in vals)
                if k[2]:
                    truth = not truth
                tests[((k[1].path or "").split("::")[-1], pred)] = truth
        has_alnum = tests.get(("contains", "alphanumeric")) is True or tests.get(("any", "alphanumeric")) is True
        no_digit_start = tests.get(("starts_with", "numeric")) is False
        ctx.check(has_alnum and no_digit_start, "R33.4", "generate_name|plain-name-is-identifier",
                  "the assembled name is returned as is only when it contains an alphanumeric character and does not start "
                  "with a digit",
                  "generate_name returns the assembled name without checking that it %s: a terminal made of unlisted symbols "
                  "only (e.g. the euro sign) is named `_`, which is not a valid Rust identifier (the generated node-kind enum does not "
                  "compile)" % ("contains an alphanumeric character" if not has_alnum else "does not start with a digit"),
                  where(g, line))
