"""explicit panic construct classifier shared by C19 / C26 / C30"""
import re

UNWRAPS = {
    "std::option::Option::unwrap": "Option::unwrap", "std::option::Option::expect": "Option::expect",
    "std::result::Result::unwrap": "Result::unwrap", "std::result::Result::expect": "Result::expect",
    "std::result::Result::unwrap_err": "Result::unwrap_err", "std::result::Result::expect_err": "Result::expect_err",
}
PANIC_FNS = ("core::panicking::panic", "std::rt::begin_panic", "core::panicking::panic_fmt",
             "core::panicking::panic_explicit", "core::panicking::unreachable_display", "core::panicking::assert_failed",
             "core::panicking::panic_display", "std::rt::panic_fmt", "core::panicking::panic_nounwind",
             "core::option::unwrap_failed", "core::result::unwrap_failed", "core::option::expect_failed",
             "std::process::exit", "std::process::abort")
MACROS = ("panic", "unreachable", "unimplemented", "todo", "assert", "assert_eq", "assert_ne",
          "debug_assert", "debug_assert_eq", "debug_assert_ne")


def outer_macro(mac):
    """the user-level macro of a macro backtrace string (innermost>...>outermost)"""
    parts = [p for p in mac.split(">") if p and not p.startswith("desugar:")]
    names = [p.split("::")[-1] for p in parts]
    for n in reversed(names):
        if n in MACROS:
            return n
    return names[-1] if names else ""


def panic_sites(body):
    """[(kind, construct, line)] kind in unwrap|macro|debug|exit"""
    out = []
    for c in body.calls():
        p = c.path or ""
        if p in UNWRAPS:
            out.append(("unwrap", UNWRAPS[p], c.line))
            continue
        if p.startswith(PANIC_FNS) or p in PANIC_FNS:
            m = outer_macro(c.mac)
            if m.startswith("debug_assert"):
                out.append(("debug", m + "!", c.line))
            elif p.startswith("std::process::"):
                out.append(("exit", p, c.line))
            else:
                out.append(("macro", (m or "panic") + "!", c.line))
    return out


def assert_terminators(body):
    n = {}
    for blk in body.blocks:
        t = blk["t"]
        if t[0] == "assert" and not blk.get("c"):
            n[t[3]] = n.get(t[3], 0) + 1
    return n
