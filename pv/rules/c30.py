"""C30 Language-server requests never crash the server - partial: explicit panic inventory.

R30.1 panic_sites_reach from Server::handle_{goto_definition, hover, document_symbols, prepare_rename, rename,
      formatting, code_action} over the parol-ls crate (calls into parol / parol_runtime are leaves): the explicit panic
      constructs must be exactly the frozen table tables/c30_panics.json (reviewed-safe with reason / known /
      baseline-unreviewed).
R30.2 offsets into the document text are obtained through utils::pos_to_offset or from token locations: inventory of
      str slicing / split_at call sites on the request paths (informational count, frozen floor).
R30.3 utils::pos_to_offset decides the width of the line terminator per line: inside the loop over the lines every
      addition of a terminator width is a constant selected by a test evaluated in that iteration (a width decided once
      for the whole document is wrong for texts that mix CRLF and LF and yields offsets beyond the text).
Offsets staying within the text in general is a value property: NOT decided.
R30.4 unsigned-subtraction inventory on the same request paths (guard-discharged or reviewed, see subguard.py).
R30.5 char-boundary inventory: str/String operations that take a byte offset (split_at, range index, insert, drain(range) ...)
      on the request paths are exactly the reviewed table; the checked forms (get, split_at_checked) are not listed.
R30.6 = C29 R29.5: the parse results (whose ranges hover slices the text with) always belong to the current text.
"""
import json
import os

from ..callgraph import CallGraph
from ..facts import AnchorMissing
from .common import LS, where, short, fn_key
from .panics import panic_sites, assert_terminators

CRATES = ["parol_ls.bin"]

META = {
    "explanation": "Decides that the request handlers of the language server reach no explicit panic construct outside a "
                   "frozen, classified table (a new unwrap/expect/panic on a request path is reported with its call "
                   "chain). Index/slice bounds and arithmetic are value properties and are not decided.",
}

HANDLERS = ["handle_goto_definition", "handle_hover", "handle_document_symbols", "handle_prepare_rename", "handle_rename",
            "handle_formatting", "handle_code_action"]
TABLE = os.path.join(os.path.dirname(os.path.dirname(os.path.dirname(os.path.abspath(__file__)))), "tables", "c30_panics.json")


SUB_TABLE = {
    "parol_ls|utils|extract_text_range":
        (1, "end - start of an Rng: ranges are built from token locations (start <= end) by Rng::from / Rng::extend"),
    "parol_ls|formatting::format::production_fmt|format_production_lhs_with_context":
        (1, "4 - identifier.len() behind `identifier.len() + comments.len() < 5` (a sum guard the recogniser does not model)"),
}


# char-boundary sensitive str/String operations (panic when a byte offset is inside a multi-byte character)
BOUNDARY_CALLS = {"split_at", "split_at_mut", "insert_str", "insert", "replace_range", "drain", "truncate", "split_off", "remove",
                  "index", "index_mut"}
BOUNDARY_TABLE = {
    "parol_ls|server|Server::make_remove_from_skip_action":
        (1, "split_at(find(\"%skip\") + \"%skip\".len()): an offset returned by str::find plus the length of an ASCII literal"),
    "parol_ls|server|Server::split_inline_comment":
        (2, "split_at(idx) with idx = line.find(..): offsets returned by str::find are character boundaries"),
    "parol_ls|utils|extract_text_range":
        (2, "offsets from pos_to_offset for ranges taken from token locations (char-based columns inside the line, or the line end "
            "behind an ASCII delimiter); client-supplied ranges must not reach this function"),
    "parol_ls|utils|pos_to_offset":
        (1, "split_at(offset) with offset = sum of complete line lengths and terminators"),
}


def inventory(ctx):
    facts = ctx.facts()
    cg = CallGraph(facts)
    ents = [facts.body("parol_ls::server::Server::" + h) for h in HANDLERS]
    seen = cg.reach(ents, crates=[LS])
    ctx.counters["functions_analysed"] = len(seen)
    found = {}
    asserts = {}
    for k, (b, pk, info) in seen.items():
        for kind, cons, line in panic_sites(b):
            # debug assertions are part of the inventory here: the language server is commonly run from debug builds
            found.setdefault("%s|%s" % (fn_key(b, facts), cons), []).append((b, line))
        for k2, v in assert_terminators(b).items():
            asserts[k2] = asserts.get(k2, 0) + v
    ctx.counters["mir_asserts_counted_not_judged"] = sum(asserts.values())
    ctx._cg, ctx._seen = cg, seen
    return found


def check(ctx):
    try:
        table = json.load(open(TABLE))
    except FileNotFoundError:
        raise AnchorMissing("tables/c30_panics.json missing")
    found = inventory(ctx)
    cg, seen = ctx._cg, ctx._seen
    classes = {}
    for key, sites in sorted(found.items()):
        e = table.get(key)
        b, line = sites[0]
        if e is None:
            ctx.bad("R30.1", key, "explicit panic construct reachable from a request handler and not in the frozen table "
                    "(lines %s); call chain: %s" % ([l for _b, l in sites], " -> ".join(short(x) for x in cg.chain(seen, b)[-5:])),
                    where(b, line))
            continue
        if len(sites) > e["count"]:
            ctx.bad("R30.1", key + "|count", "%d explicit panic sites where the frozen table has %d (lines %s)"
                    % (len(sites), e["count"], [l for _b, l in sites]), where(b, sites[-1][1]))
            continue
        classes[e["class"]] = classes.get(e["class"], 0) + len(sites)
        if e["class"] == "known":
            ctx.bad("R30.1", key, e["reason"], where(b, line))
        else:
            ctx.ok("R30.1", key, "%s: %s" % (e["class"], e["reason"] or "frozen baseline"), where(b, line),
                   nontrivial=(e["class"] == "reviewed-safe"))
    ctx.counters.update({"sites_" + k.replace("-", "_"): v for k, v in classes.items()})
    ctx.require_floor("R30.1", "reachable_functions", len(seen), 100)
    # R30.6 = C29 R29.5: ranges used by hover / goto-definition belong to the current text
    from . import c29
    c29.parsed_data_is_current(ctx, ctx.facts(), rule="R30.6")
    # R30.5 char-boundary sensitive string operations on the request paths: reviewed table
    nb = 0
    found_b = {}
    for k, (b, pk, info) in sorted(seen.items()):
        for c in b.calls():
            n = (c.path or "").split("::")[-1]
            st = c.self_ty or ""
            if n in BOUNDARY_CALLS and (st in ("str", "std::string::String") or st.startswith("&str")):
                pa = c.callee.get("pa") or ""
                if "RangeFull" in pa:
                    continue            # the whole string: no offset involved
                if n in ("index", "index_mut") and "Range" not in pa:
                    continue
                nb += 1
                found_b.setdefault(fn_key(b, ctx.facts()), []).append((b, c))
    for key, sites in sorted(found_b.items()):
        allowed = BOUNDARY_TABLE.get(key)
        b, c = sites[0]
        if allowed and len(sites) <= allowed[0]:
            ctx.ok("R30.5", key + "|char-boundary", "%d reviewed byte-offset operation(s) on text: %s" % (len(sites), allowed[1]),
                   where(b, c.line))
        else:
            ctx.bad("R30.5", key + "|char-boundary", "%d byte-offset operation(s) on document text (%s at lines %s)%s: slicing / "
                    "splitting a str at an offset inside a multi-byte character panics and takes the server down; use the checked "
                    "form (get / is_char_boundary); call chain: %s"
                    % (len(sites), sorted({(x.path or '').split('::')[-1] for _b, x in sites}), [x.line for _b, x in sites],
                       " where %d were reviewed" % allowed[0] if allowed else " not in the reviewed table",
                       " -> ".join(short(x) for x in cg.chain(seen, b)[-5:])), where(b, sites[-1][1].line))
    ctx.counters["char_boundary_sites"] = nb
    ctx.require_floor("R30.5", "char_boundary_sites", nb, 4)
    # R30.4 unsigned subtractions on the request paths: guarded or reviewed
    from . import subguard
    subguard.inventory(ctx, ctx.facts(), cg, seen, "R30.4", SUB_TABLE, 2, what="request paths of the language server")
    # R30.2
    facts = ctx.facts()
    n = 0
    for k, (b, pk, info) in seen.items():
        for c in b.calls():
            p = c.path or ""
            if p in ("core::str::split_at", "core::str::get_unchecked") or \
                    (p.endswith("Index::index") and (c.self_ty or "").startswith(("str", "std::string::String")) ):
                n += 1
    ctx.ok("R30.2", "text-slicing-sites", "%d string slicing call sites on the request paths (counted)" % n, nontrivial=False)

    # ---------------------------------------------------------------- R30.3
    from .. import cfg
    from ..dataflow import operand_term
    from .common import transitive_control_deps, control_dependence_no_errors
    po = facts.body("parol_ls::utils::pos_to_offset")
    loops = cfg.natural_loops(po)
    line_loops = [l for l in loops if any((c.path or "") == "std::iter::Iterator::next" and "Lines" in (c.self_ty or "") and c.bb in l[1]
                                           for c in po.calls())]
    if not line_loops:
        raise AnchorMissing("pos_to_offset: no loop over the lines of the text")
    h, blocks, backs = line_loops[0]
    cd = control_dependence_no_errors(po)
    adds = []
    for bi, si, p, rv, line, mac in po.assigns():
        if bi in blocks and rv[0] == "bin" and rv[1].startswith("Add"):
            a, b2 = operand_term(po, rv[2]), operand_term(po, rv[3])
            # the running offset: the function's return value accumulator - the local that is returned (moved into _0);
            # identified by that role, not by its name
            accs = set()
            for bi3, si3, p3, rv3, line3, mac3 in po.assigns():
                if p3 == [0] and rv3[0] == "use" and rv3[1][0] in ("c", "m") and len(rv3[1][1]) == 1:
                    accs.add(rv3[1][1][0])
            locs = [x[1] if x[0] in ("path", "local") else None for x in (a, b2)]
            if any(l in accs for l in locs if l is not None):
                other = b2 if (locs[0] in accs) else a
                adds.append((bi, other, line))
    bad = []
    n_term = 0
    for bi, other, line in adds:
        if other[0] == "const":
            # a constant width: must be selected by a test evaluated inside the loop
            n_term += 1
            ok = False
            for a, s, k in transitive_control_deps(po, bi, cd=cd):
                if a in blocks and k and k[0] == "call" and k[1].bb in blocks:
                    ok = True
            if not ok:
                bad.append((line, "constant width not selected per line"))
        elif other[0] == "call" and (other[1].path or "").endswith("::len"):
            continue    # the line's own length
        elif other[0] in ("path", "local"):
            defs = [d for d in po.defs(other[1]) if d[0] in ("assign", "call")]
            if defs and all(d[1] not in blocks for d in defs):
                bad.append((line, "adds `%s`, which is computed once outside the loop" % (po.local_name(other[1]) or other[1])))
        elif other[0] == "bin":
            bad.append((line, "adds a compound width computed from loop-invariant values"))
    ctx.check(not bad and n_term >= 1, "R30.3", "pos_to_offset|terminator-width-per-line",
              "inside the line loop the terminator width is a constant chosen by a per-line test (%d additions)" % n_term,
              "pos_to_offset does not decide the line-terminator width per line (%s): for a text mixing CRLF and LF the offset "
              "drifts beyond the text and str::split_at panics in hover / code actions" % bad, where(po))
