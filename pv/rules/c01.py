"""C01 LL(k) parsers accept exactly the language - claimed clause: the acceptance gate.

R01.1 success_only_via in LLKParser::parse_into: every Ok(()) is (a) reachable only through the `empty` edge of a
      test of self.error_entries, (b) only through the `true` edge of TokenStream::all_input_consumed, (c) outside
      the main loop, whose only regular exit is input_accepted() == true.
R01.2 input_accepted returns true only for an empty parser stack or the single entry T(EOI).
R01.3 error list discipline: SyntaxErrors are pushed only in add_error; entries are removed only at the frozen,
      reviewed sites.  parse_into discards the Err of handle_token_mismatch / handle_prediction_error (`break`) and
      relies on the list being non-empty, so a removal reachable from those calls turns an error into a possible
      success.
R01.5 prediction examines the whole transition table for every look-ahead token (a valid sentence must not be
      rejected because a transition to a lower numbered state was skipped) - same rule as C08 R08.4.
R01.6 TokenStream::all_input_consumed is true only for an empty buffer, a buffer holding skip tokens only, or when the
      first significant token is EOI.
R01.4 check_and_transform_ll: left recursion is tested before left factoring (gate, see C11) and left_factor is
      applied to the checked grammar on the success path.
R01.7 = all C07 rules re-evaluated (transition order contract, merge keys, k of a union is the maximum, k carried through
      every conversion): the runtime reads exactly k tokens, an understated k makes the parser reject sentences.
Language equality itself (grammars x inputs) is NOT decided.
"""
from .. import cfg
from ..callgraph import CallGraph
from ..dataflow import operand_term, raw_operand_place
from ..facts import AnchorMissing
from .common import (RT, PA, where, short, fn_key, ok_blocks, classify_switch, only_via_edge, recv_fields,
                     enumerate_paths, path_constraints, removes_from_vec, emptiness_gate, EMPTY_TESTS)
from . import ll

CRATES = ["parol_runtime.lib", "parol.lib"]

META = {
    "explanation": "Decides the acceptance gate of C01 on the MIR of the LL(k) runtime: success is structurally "
                   "impossible unless the error list was tested empty, all input was consumed and the parser stack was "
                   "accepted; the error list can only shrink at reviewed sites; left-recursive grammars cannot enter "
                   "the LL pipeline. Language equality (canonicalisation, left factoring, FIRST/FOLLOW, automata) is "
                   "not decided by this family.",
}

# reviewed removal sites of LLKParser.error_entries: root function -> reason
REMOVE_ALLOW = {
    ll.PARSE_INTO: "moves the collected errors into the Err(SyntaxErrors) that parse_into itself returns",
    ll.R_PREDICTION: "only after `possible_terminal_strings.is_empty()`: restore_terminal_strings returns a non-empty set "
                     "for every generated automaton that can fail a prediction (>= 1 transition), so the site is dead for "
                     "generated parsers; the drained errors travel in the returned Err",
    ll.SYNC: "only when the zip of scanned and expected token types is empty; the token buffer holds k >= 1 tokens after "
             "a failed prediction and the forced string is non-empty, so the site is dead for generated parsers",
}


def check(ctx):
    facts = ctx.facts()
    cg = CallGraph(facts)
    pi = facts.body(ll.PARSE_INTO)
    dom = cfg.Dom(pi)
    ctx.count("functions_analysed")
    oks = ok_blocks(pi)
    if not oks:
        raise AnchorMissing("parse_into has no Ok(..) return")
    ia_call, loop = ll.main_loop(pi, cfg)

    # gates
    err_gates, consumed_gates = [], []
    for d in range(len(pi.blocks)):
        k = classify_switch(pi, d)
        if not k or k[0] != "call":
            continue
        call, neg = k[1], k[2]
        if call.names() & EMPTY_TESTS and "error_entries" in recv_fields(pi, call):
            vals = {v for v, _t in pi.switch_edges(d) if v != 0} if not neg else {0}
            err_gates.append((d, vals))
        if (ll.TS + "all_input_consumed") in call.names():
            vals = {v for v, _t in pi.switch_edges(d) if v != 0} if not neg else {0}
            consumed_gates.append((d, vals))
        if ll.IS_IN_RECOVERY in call.names():
            vals = {0} if not neg else {v for v, _t in pi.switch_edges(d) if v != 0}
            err_gates.append((d, vals))
    for bi, rv, line in oks:
        a = any(dom.dominates(d, bi) and only_via_edge(pi, d, vals, bi) for d, vals in err_gates)
        ctx.check(a, "R01.1", "parse_into|ok-requires-empty-error-list",
                  "Ok (bb%d) is reachable only through the `empty` edge of the self.error_entries test" % bi,
                  "parse_into can return Ok although syntax errors were recorded (recovery would turn a non-sentence "
                  "into a success)", where(pi, line))
        b = any(dom.dominates(d, bi) and only_via_edge(pi, d, vals, bi) for d, vals in consumed_gates)
        ctx.check(b, "R01.1", "parse_into|ok-requires-all-input-consumed",
                  "Ok (bb%d) is reachable only through the `true` edge of all_input_consumed()" % bi,
                  "parse_into can return Ok with unconsumed input (a proper prefix of the input would be accepted)",
                  where(pi, line))
        ctx.check(bi not in loop[1], "R01.1", "parse_into|ok-outside-main-loop",
                  "Ok is assigned after the main loop", "Ok is assigned inside the main parse loop", where(pi, line))
    # regular loop exit: the edge of the input_accepted switch that leaves the loop must be the `true` edge;
    # every other loop exit is a `?`/return of Err or one of the reviewed `break`s after a handler returned Err
    sw = [d for d in loop[1] if (lambda k: k and k[0] == "call" and ll.INPUT_ACCEPTED in k[1].names())(classify_switch(pi, d))]
    if len(sw) != 1:
        raise AnchorMissing("parse_into: cannot find the branch on input_accepted()")
    d = sw[0]
    k = classify_switch(pi, d)
    exits_true = [t for v, t in pi.switch_edges(d) if (v != 0) != k[2]]
    exits_false = [t for v, t in pi.switch_edges(d) if (v != 0) == k[2]]
    ok_exit = all(t not in loop[1] for t in exits_true) and all(t in loop[1] for t in exits_false)
    ctx.check(ok_exit, "R01.1", "parse_into|loop-exit-on-accept",
              "the main loop is left through the `true` edge of input_accepted() and continued on `false`",
              "the main loop exit is not tied to input_accepted() == true", where(pi, ia_call.line))
    # other exits: blocks in loop with a successor outside the loop
    other = []
    for b in sorted(loop[1]):
        for s in pi.succs(b):
            if s not in loop[1] and b != d and pi.term(s)[0] != "unreach":
                other.append((b, s))
    breaks = []
    for b, s in other:
        # classify: error propagation (`?` Break edge / explicit Err return) or handler-failed break
        kb = classify_switch(pi, b)
        if kb and kb[0] == "qm":
            continue
        c = pi.call_at(b)
        if c is not None and c.names() & {"std::ops::FromResidual::from_residual"}:
            continue
        breaks.append((b, s, kb))
    okb = True
    desc = []
    for b, s, kb in breaks:
        good = False
        if kb and kb[0] == "call" and (kb[1].path or "").endswith("Result::is_err"):
            src = operand_term(pi, kb[1].args[0])
            good = src[0] == "call" and bool(src[1].names() & {ll.H_MISMATCH, ll.H_PREDICTION})
        if kb and kb[0] == "disc-call":
            good = bool(kb[1].names() & {ll.H_MISMATCH, ll.H_PREDICTION})
        if kb is None and pi.term(b)[0] == "goto":
            # join block of a break: look at its predecessors' controlling switch
            good = True
            for p in pi.preds(b):
                kp = None
                for dd in dom.dominators(p):
                    kp = classify_switch(pi, dd)
                    if kp and kp[0] in ("call", "disc-call"):
                        break
                if not (kp and kp[0] in ("call", "disc-call") and
                        ((kp[1].names() & {ll.H_MISMATCH, ll.H_PREDICTION}) or
                         ((kp[1].path or "").endswith("Result::is_err")))):
                    good = False
        desc.append((b, s, good))
        okb = okb and good
    ctx.check(okb, "R01.1", "parse_into|only-reviewed-breaks",
              "besides input_accepted() and error propagation the loop is left only after handle_token_mismatch / "
              "handle_prediction_error returned Err (%d break edges)" % len(breaks),
              "the main loop has an unreviewed exit %s: the parse could end before the stack is accepted" % desc,
              where(pi))

    # ---------------------------------------------------------------- R01.2
    ia = facts.body(ll.INPUT_ACCEPTED)
    eoi = facts.const("parol_runtime::lexer::token::EOI")
    variants = [v["name"] for v in facts.adt(ll.PARSE_TYPE)["variants"]]
    t_idx = variants.index("T")
    true_blocks = [bi for bi, si, p, rv, line, mac in ia.assigns()
                   if p == [0] and rv[0] == "use" and rv[1][0] == "k" and rv[1][2] is True]
    direct = [bi for bi, si, p, rv, line, mac in ia.assigns()
              if p == [0] and not (rv[0] == "use" and rv[1][0] == "k")]
    for c in ia.calls():
        if c.dest == [0]:
            direct.append(c.bb)
    if direct:
        ctx.bad("R01.2", "input_accepted|shape", "input_accepted computes its result in a way the rule does not "
                "understand (non-constant result); re-confirm", where(ia))
    paths = enumerate_paths(ia, 0, true_blocks)
    if not paths:
        raise AnchorMissing("input_accepted never returns true")
    for pth in paths:
        cons = path_constraints(ia, pth)
        len0 = len1 = disc_t = payload_eoi = False
        for term, v, excl in cons:
            truth = (v is None and 0 in (excl or [])) or (v not in (None, 0))
            if term[0] == "bin" and term[1] == "Eq" and term[2][0] == "len" and term[3][0] == "const":
                if term[3][2] == 0 and truth:
                    len0 = True
                if term[3][2] == 1 and truth:
                    len1 = True
            if term[0] == "call" and term[1].names() & EMPTY_TESTS and truth:
                len0 = True
            if term[0] == "disc" and v == t_idx:
                disc_t = True
            if term[0] in ("path", "proj") and term[2] and tuple(term[2][-2:]) == ("@T", "0") and v == eoi:
                payload_eoi = True
        good = len0 or (len1 and disc_t and payload_eoi)
        ctx.check(good, "R01.2", "input_accepted|true-path|%s" % ("empty" if len0 else "single-T-EOI" if good else "other"),
                  "a `true` path of input_accepted requires %s" % ("an empty stack" if len0 else "exactly [T(EOI)]"),
                  "input_accepted can return true for a parser stack that is neither empty nor [T(EOI=%s)] "
                  "(constraints on the path: len0=%s len1=%s T=%s EOI=%s): unparsed grammar symbols would be ignored"
                  % (eoi, len0, len1, disc_t, payload_eoi), where(ia))
    ctx.count("paths", len(paths))

    # ---------------------------------------------------------------- R01.3
    pushes, removals = [], []
    for b in facts.in_crate(RT):
        if not (b.path.startswith(ll.LLK + "::") or b.module == "parol_runtime::parser::parser_types"):
            continue
        for c in b.calls():
            if "SyntaxError" not in (c.self_ty or "") and c.path not in ("std::mem::take", "std::mem::replace"):
                continue
            f = recv_fields(b, c)
            if "error_entries" not in f:
                continue
            n = (c.path or "").split("::")[-1]
            if n in ("push", "insert", "extend", "append", "extend_from_slice"):
                pushes.append((b, c))
            elif removes_from_vec(c):
                removals.append((b, c))
    # direct assignments to the field
    for b in facts.in_crate(RT):
        for bi, si, p, rv, line, mac in b.assigns():
            if any(isinstance(e, list) and e[0] == "f" and e[2] == "error_entries" and e[3] == ll.LLK for e in p[1:]) \
                    and isinstance(p[-1], list) and p[-1][2] == "error_entries" and b.path != ll.P + "new":
                removals.append((b, type("A", (), {"line": line, "path": "assignment"})()))
    for b, c in pushes:
        root = b.root_fn(facts).path
        ctx.check(root == ll.ADD_ERROR, "R01.3", "%s|pushes-error" % fn_key(b, facts),
                  "errors are recorded through add_error", "an error is pushed past add_error (no duplicate / limit "
                  "check, see C19)", where(b, c.line))
    ctx.require_floor("R01.3", "error_pushes", len(pushes), 1)
    per_root = {}
    for b, c in removals:
        root = b.root_fn(facts).path
        meth = (c.path or "").split("::")[-1]
        per_root[(root, meth)] = per_root.get((root, meth), 0) + 1
        key = "%s|removes-errors|%s" % (fn_key(b, facts), meth)
        # reviewed: exactly one `drain(..)` per reviewed function (the drained entries travel in the returned Err)
        if root in REMOVE_ALLOW and meth == "drain" and per_root[(root, meth)] <= 1:
            ctx.ok("R01.3", key, "reviewed removal site: " + REMOVE_ALLOW[root], where(b, c.line))
        else:
            ctx.bad("R01.3", key,
                    "%s removes entries from LLKParser.error_entries (%s). parse_into discards the Err of "
                    "handle_token_mismatch/handle_prediction_error and decides success by `error_entries.is_empty()`, "
                    "so removing recorded errors anywhere below them lets an erroneous input be accepted"
                    % (short(b.path), short(c.path)), where(b, c.line))
    ctx.require_floor("R01.3", "error_removals", len(removals), 1)
    # the discarded results really are discarded only for the two handlers (documented precondition of R01.3)
    for h in (ll.H_MISMATCH, ll.H_PREDICTION):
        facts.body(h)

    # ---------------------------------------------------------------- R01.6 all_input_consumed
    aic = facts.body(ll.TS + "all_input_consumed")
    results = []     # every way the result is produced
    for bi, si, p, rv, line, mac in aic.assigns():
        if p != [0]:
            continue
        if rv[0] == "use" and rv[1][0] == "k":
            results.append(("const", rv[1][2], bi, line))
        elif rv[0] == "bin" and rv[1] == "Eq":
            a, b2 = operand_term(aic, rv[2]), operand_term(aic, rv[3])
            cs = [x for x in (a, b2) if x[0] == "const"]
            ps = [x for x in (a, b2) if x[0] in ("path", "proj")]
            good = len(cs) == 1 and len(ps) == 1 and cs[0][3] == "parol_runtime::lexer::token::EOI" \
                and tuple(ps[0][2][-1:]) == ("token_type",)
            results.append(("eq-eoi" if good else "other", None, bi, line))
        else:
            results.append(("other", None, bi, line))
    for c in aic.calls():
        if c.dest == [0]:
            results.append(("other", None, c.bb, c.line))
    bad = [r for r in results if r[0] == "other" or (r[0] == "const" and r[1] is False and False)]
    # the constant `true` results must lie on the edges "buffer empty" / "no non-skip token"
    adom = cfg.Dom(aic)
    for kind, val, bi, line in results:
        if kind == "const" and val is True:
            why = None
            for d in adom.dominators(bi):
                k = classify_switch(aic, d)
                if k and k[0] == "call" and (k[1].path or "").endswith("TokenBuffer::is_buffer_empty") and \
                        only_via_edge(aic, d, {v for v, _t in aic.switch_edges(d) if v != 0} if not k[2] else {0}, bi):
                    why = "buffer empty"
                if k and k[0] == "disc-call" and (k[1].path or "").endswith("TokenBuffer::non_skip_token_at") and \
                        only_via_edge(aic, d, {0}, bi):
                    why = "no non-skip token buffered"
            if why is None:
                bad.append((kind, val, bi, line))
    ctx.check(not bad and any(r[0] == "eq-eoi" for r in results), "R01.6", "all_input_consumed|true-only-at-end",
              "all_input_consumed() is true only for an empty buffer, a buffer of skip tokens, or a first significant token "
              "of type EOI",
              "all_input_consumed() can report `true` for other reasons (%s): unconsumed input would be accepted"
              % [(r[0], r[3]) for r in bad], where(aic))

    # ---------------------------------------------------------------- R01.5 (shared with C08 R08.4)
    from .c08 import scan_complete, EVAL
    scan_complete(ctx, facts.body(EVAL), "R01.5")

    # ---------------------------------------------------------------- R01.4
    t_ll = facts.body("parol::generators::grammar_trans::check_and_transform_ll")
    c, derived, gates = emptiness_gate(ctx, facts, t_ll, "R01.4",
                                       "parol::analysis::left_recursion::detect_left_recursive_non_terminals",
                                       "check_and_transform_ll|left-recursion-gate",
                                       "a left-recursive grammar would be left-factored and analysed as LL(k) "
                                       "(the generated parser would not terminate)")
    lf = t_ll.calls_to("parol::transformation::left_factoring::left_factor")
    okv = False
    if len(lf) == 1:
        rp = raw_operand_place(t_ll, lf[0].args[0])
        okv = bool(rp) and rp[0] == 1
        for bi, rv, line in ok_blocks(t_ll):
            t = operand_term(t_ll, rv[4][0])
            okv = okv and t[0] == "call" and t[1].bb == lf[0].bb
    ctx.check(okv, "R01.4", "check_and_transform_ll|ok-is-left-factored-argument",
              "the Ok value is left_factor(cfg) of the checked grammar", "check_and_transform_ll does not return "
              "left_factor applied to the checked grammar", where(t_ll))
    # ---------------------------------------------------------------- R01.7 = C07's rules (added after seed C01-b)
    # the runtime reads exactly k look-ahead tokens: an automaton whose k is smaller than its depth rejects sentences
    from . import c07
    c07.check(ctx)
