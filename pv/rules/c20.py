"""C20 Parser options do not change parse outcomes - non-interference by construction.

R20.1 control_region(trim_parse_tree): everything control dependent (transitively, `?` error exits ignored) on a
      branch on LLKParser/LRParser.trim_parse_tree may only build / skip building the parse tree: calls into
      TreeConstruct, pushing skipped terminals on the LR tree stack, the Some/None selection of LR children and the
      post-accept LR tree build.  No parser stack, token stream, error list, depth counter or user action in there.
R20.2 recovery gating: the token-stream mutators of recovery (enter_recovery_mode, replace_token_type_at,
      insert_token_at, remove_token_at) are called only from adjust_token_stream / sync_token_stream /
      recover_from_*; adjust/sync only from recover_from_*; inside recover_from_* each of them is dominated by the
      `true` edge of is_recovery_enabled().  With recovery disabled no mutator is reachable.
R20.3 depth pairing: production_depth is incremented (push_production) and decremented (E arm of parse_into) under
      guards on Production.is_push_production of equal polarity.
R20.4 exceeding max_parsing_depth yields Err(MaxParsingDepthExceeded) in both parsers (no panic, no truncation).
R20.6 the depth-limit error reaches the caller: the Result of every push_production call in LLKParser::parse_into (and its
      closures) is propagated with `?` / returned, never only inspected (is_err, if let Err, match that breaks the loop).
R20.5 = all C17 rules re-evaluated: one skip predicate for every site that counts or filters parse-tree-stack entries (the
      trim option decides whether skip tokens are on that stack at all).
"""
from .. import cfg
from ..callgraph import CallGraph
from ..dataflow import operand_term, raw_operand_place, raw_place
from ..facts import AnchorMissing
from .common import (RT, where, short, fn_key, classify_switch, transitive_control_deps, control_dependence_no_errors,
                     who_may_call, only_via_edge, all_places, recv_fields, callers_of)
from . import ll

CRATES = ["parol_runtime.lib"]

META = {
    "explanation": "Decides non-interference of the parser options structurally: the trim flag controls nothing but "
                   "tree construction; recovery actions are unreachable unless is_recovery_enabled() was true; depth "
                   "counting is symmetric and the limit produces an error value. Holds for every grammar table and "
                   "input because it is a property of the CFG/call graph of the runtime.",
}

LR = "parol_runtime::lr_parser::parser_types::LRParser"
LRP = LR + "::"
TREE_OK = {ll.TC + "open_non_terminal", ll.TC + "close_non_terminal", ll.TC + "add_token"}
PLUMBING = {"std::ops::Try::branch", "std::ops::FromResidual::from_residual", "std::convert::From::from",
            "std::convert::Into::into", "std::clone::Clone::clone", "std::ops::Deref::deref",
            "std::ops::DerefMut::deref_mut", "std::borrow::Borrow::borrow", "std::borrow::BorrowMut::borrow_mut"}
LR_TREE_OK = {
    "parol_runtime::parser_common::parse_tree_stack::ParseTreeStack::push": "pushes a skipped terminal on the LR tree stack (children are filtered by is_effectively_skip_token in call_action)",
    "parol_runtime::parser_common::parse_tree_stack::ParseTreeStack::pop_all": "post-accept tree build",
    "parol_runtime::parser_common::parse_tree_stack::ParseTreeStack::is_empty": "debug_assert before the tree build",
    "parol_runtime::lr_parser::parse_tree::build_tree": "post-accept tree build",
    LRP + "handle_additional_tokens": "post-accept hand-over: Accept is only taken on EOI after the in-loop call already "
                                      "drained all skip tokens, so nothing can be delivered here (reasoned exception)",
}
STATE_FIELDS = {"parser_stack", "production_depth", "error_entries", "enable_recovery", "max_parsing_depth"}
MUTATORS = ["enter_recovery_mode", "replace_token_type_at", "insert_token_at", "remove_token_at"]


def trim_regions(body, cd):
    """blocks control dependent on a branch on *.trim_parse_tree"""
    region = {}
    for b in range(len(body.blocks)):
        if body.is_cleanup(b):
            continue
        for a, s, k in transitive_control_deps(body, b, cd=cd):
            if k and k[0] == "field" and k[2] and k[2][-1].endswith("trim_parse_tree"):
                region.setdefault(b, a)
    return region


def check(ctx):
    facts = ctx.facts()
    cg = CallGraph(facts)
    n_regions = 0
    n_fn = 0
    for b in facts.in_crate(RT):
        if not (b.path.startswith(ll.P) or b.path.startswith(LRP)):
            continue
        n_fn += 1
        reads = [1 for bi, kind, p, line in all_places(b)
                 if kind == "r" and any(isinstance(e, list) and e[0] == "f" and e[2].endswith("trim_parse_tree") for e in p[1:])]
        if not reads:
            continue
        root = b.root_fn(facts).path
        if root.endswith("::trim_parse_tree") or root.endswith("::new"):
            continue
        cd = control_dependence_no_errors(b)
        region = trim_regions(b, cd)
        if not region:
            # the flag is read but controls nothing (value selection via switch): still an instance
            ctx.ok("R20.1", "%s|trim-region-empty" % fn_key(b, facts), "trim flag read without a control region", where(b))
            continue
        n_regions += 1
        is_lr = b.path.startswith(LRP)
        bad = []
        for blk in sorted(region):
            c = b.call_at(blk)
            if c is not None:
                names = c.names()
                p = c.path or "?"
                if names & TREE_OK or names & PLUMBING:
                    pass
                elif "$crate::log" in c.mac or "$crate::__log" in c.mac or c.mac.endswith("trace") or \
                        "debug_assert" in c.mac or "format_args" in c.mac:
                    pass
                elif is_lr and any(n in LR_TREE_OK for n in names):
                    if p.endswith("ParseTreeStack::push") and b.root_fn(facts).path != LRP + "handle_additional_tokens":
                        bad.append((blk, c.line, "tree-stack push outside handle_additional_tokens"))
                elif p.endswith("::clone") or p.startswith("std::rc::Rc") or p.startswith("std::option::Option::Some"):
                    pass
                elif p.startswith("std::ptr::drop_in_place") or p == "std::mem::drop":
                    pass
                else:
                    bad.append((blk, c.line, short(p)))
            for s in b.stmts(blk):
                if s[0] == "a":
                    rp = s[1]
                    fs = [e[2] for e in rp[1:] if isinstance(e, list) and e[0] == "f"]
                    if fs and fs[0] in STATE_FIELDS:
                        bad.append((blk, s[3], "write to self.%s" % fs[0]))
        ctx.count("region_blocks", len(region))
        ctx.check(not bad, "R20.1", "%s|trim-control-region" % fn_key(b, facts),
                  "the %d blocks controlled by trim_parse_tree only build (or skip) the parse tree" % len(region),
                  "code controlled by trim_parse_tree does more than tree construction: %s - the option can then change "
                  "acceptance, recovery or the sequence of semantic actions" % bad, where(b))
    ctx.require_floor("R20.1", "trim_control_regions", n_regions, 6)

    # LL: the parse-tree stack (arguments of semantic actions) must not be controlled by trim at all
    for fn in (ll.PARSE_INTO, ll.PUSH_PRODUCTION, ll.PROCESS_ITEM_STACK):
        b = facts.body(fn)
        cd = control_dependence_no_errors(b)
        region = trim_regions(b, cd)
        offenders = []
        for c in b.calls():
            if c.bb in region and (ll.USER_ACTION in c.names() or
                                   (c.path or "").startswith("parol_runtime::parser_common::parse_tree_stack::")):
                offenders.append(c.line)
        ctx.check(not offenders, "R20.1", "%s|ll-action-arguments-independent-of-trim" % short(fn),
                  "parse_tree_stack operations and the semantic-action call are outside every trim region",
                  "the LL parse-tree stack / semantic action call is controlled by trim_parse_tree (lines %s)" % offenders,
                  where(b))

    # ---------------------------------------------------------------- R20.2
    allowed_mut = {ll.ADJUST, ll.SYNC, ll.R_PREDICTION, ll.R_MISMATCH}
    n_mut = 0
    for m in MUTATORS:
        path = ll.TS + m
        facts.body(path)
        sites = who_may_call(ctx, facts, "R20.2", path, allowed_mut, [RT],
                             "token-stream edits of error recovery must stay behind is_recovery_enabled()")
        n_mut += len(sites)
    ctx.require_floor("R20.2", "mutator_call_sites", n_mut, 5)
    for f in (ll.ADJUST, ll.SYNC):
        who_may_call(ctx, facts, "R20.2", f, {ll.R_PREDICTION, ll.R_MISMATCH}, [RT],
                     "adjust/sync_token_stream edit the token stream and may only run as part of enabled recovery",
                     floor=1)
    gated_names = {ll.ADJUST, ll.SYNC} | {ll.TS + m for m in MUTATORS}
    for f in (ll.R_PREDICTION, ll.R_MISMATCH):
        b = facts.body(f)
        dom = cfg.Dom(b)
        gates = []
        for d in range(len(b.blocks)):
            k = classify_switch(b, d)
            if k and k[0] == "call" and ll.IS_RECOVERY_ENABLED in k[1].names():
                vals = {v for v, _t in b.switch_edges(d) if v != 0} if not k[2] else {0}
                gates.append((d, vals))
            if k and k[0] == "field" and k[2] and k[2][-1] == "enable_recovery":
                vals = {v for v, _t in b.switch_edges(d) if v != 0} if not k[3] else {0}
                gates.append((d, vals))
        n = 0
        for c in b.calls():
            if c.names() & gated_names:
                n += 1
                ok = any(dom.dominates(d, c.bb) and only_via_edge(b, d, vals, c.bb) for d, vals in gates)
                ctx.check(ok, "R20.2", "%s|%s-behind-recovery-enabled" % (short(f).split("::")[-1], short(c.path).split("::")[-1]),
                          "%s is reachable only through the `true` edge of is_recovery_enabled()" % short(c.path),
                          "%s can run although recovery is disabled: disabling recovery would change the token stream "
                          "and thereby the parse" % short(c.path), where(b, c.line))
        ctx.require_floor("R20.2", "gated_calls:%s" % short(f).split("::")[-1], n, 2)
        # the disabled-recovery path is effect free: nothing but error construction on the `false` edge
        for d, vals in gates:
            fvals = {v for v, _t in b.switch_edges(d) if v not in vals}
            offenders = []
            for blk in range(len(b.blocks)):
                if b.is_cleanup(blk) or blk == d:
                    continue
                if not (dom.dominates(d, blk) and only_via_edge(b, d, fvals, blk)):
                    continue
                c = b.call_at(blk)
                if c is None or c.names() & PLUMBING:
                    continue
                touches_self = any(a[0] in ("c", "m") and (raw_operand_place(b, a) or [None])[0] == 1 for a in c.args)
                if touches_self:
                    offenders.append((c.line, short(c.path or "?")))
            ctx.check(not offenders, "R20.2", "%s|disabled-path-effect-free" % short(f).split("::")[-1],
                      "with recovery disabled %s returns its error without calling anything on the parser" % short(f).split("::")[-1],
                      "with recovery disabled %s still calls %s on the parser: disabling recovery changes parser state "
                      "(parse_into decides success from that state)" % (short(f).split("::")[-1], offenders), where(b))
    # closures of recover_* (none today) would escape the dominance argument
    for f in (ll.R_PREDICTION, ll.R_MISMATCH):
        for cl in facts.closures_of(facts.body(f)):
            if any(c.names() & gated_names for c in cl.calls()):
                ctx.bad("R20.2", "%s|gated-call-in-closure" % short(f), "a recovery edit is performed inside a closure of %s; "
                        "dominance by is_recovery_enabled() cannot be established" % short(f), where(cl))

    # ---------------------------------------------------------------- R20.3
    sites = []
    for fn in (ll.PUSH_PRODUCTION, ll.PARSE_INTO):
        b = facts.body(fn)
        cd = control_dependence_no_errors(b)
        for bi, si, p, rv, line, mac in b.assigns():
            fs = [e for e in p[1:] if isinstance(e, list) and e[0] == "f"]
            if fs and fs[-1][2] == "production_depth" and fs[-1][3] == ll.LLK and isinstance(p[-1], list):
                t = operand_term(b, ["c", raw_place(b, rv[1][1])] if rv[0] == "use" and rv[1][0] in ("c", "m") else ["k", "", None, None, None])
                # value comes from a checked add/sub tuple: find the arithmetic
                op = None
                src = rv[1][1] if rv[0] == "use" and rv[1][0] in ("c", "m") else None
                if src is not None:
                    for d in b.defs(src[0]):
                        if d[0] == "assign" and d[3][0] == "bin":
                            op = d[3][1]
                if rv[0] == "bin":
                    op = rv[1]
                pol = None
                for a, s, k in transitive_control_deps(b, bi, cd=cd):
                    if k and k[0] == "field" and k[2] and k[2][-1] == "is_push_production":
                        vals = [v for v, t in b.switch_edges(a) if t == s]
                        truth = any(v != 0 for v in vals)
                        if k[3]:
                            truth = not truth
                        pol = truth
                sites.append((short(fn), op, pol, line, b))
    incs = [s for s in sites if s[1] and s[1].startswith("Add")]
    decs = [s for s in sites if s[1] and s[1].startswith("Sub")]
    ok = len(incs) == 1 and len(decs) == 1 and incs[0][2] is not None and incs[0][2] == decs[0][2] \
        and incs[0][0].endswith("push_production") and decs[0][0].endswith("parse_into")
    ctx.check(ok, "R20.3", "production_depth|paired",
              "production_depth is incremented in push_production and decremented in parse_into under the same "
              "is_push_production polarity (%s)" % (incs[0][2] if incs else None),
              "production_depth increments/decrements are not paired under the same is_push_production guard: %s"
              % [(s[0], s[1], s[2], s[3]) for s in sites], where(facts.body(ll.PUSH_PRODUCTION)))

    # ---------------------------------------------------------------- R20.4
    for fn, label in ((ll.PUSH_PRODUCTION, "ll"), (LRP + "parse_into", "lr")):
        b = facts.body(fn)
        aggs = [(bi, rv, line) for bi, si, p, rv, line, mac in b.assigns()
                if rv[0] == "agg" and rv[3] == "MaxParsingDepthExceeded"]
        if len(aggs) != 1:
            ctx.bad("R20.4", "%s|depth-error-count" % label, "expected one MaxParsingDepthExceeded construction in %s, "
                    "found %d" % (short(fn), len(aggs)), where(b))
            continue
        bi, rv, line = aggs[0]
        # reaches an Err return without passing a panic
        errs = [x for x, s2, p, r2, l2, m2 in b.assigns() if p == [0] and r2[0] == "agg" and r2[3] == "Err"]
        reach = cfg.reachable_from(b, bi)
        cd = control_dependence_no_errors(b)
        cmp_ok = False
        for a, s, k in transitive_control_deps(b, bi, cd=cd):
            if k and k[0] == "bin" and k[1] in ("Gt", "Ge", "Lt", "Le"):
                cmp_ok = True
        ctx.check(any(e in reach for e in errs) and cmp_ok, "R20.4", "%s|depth-limit-yields-error" % label,
                  "exceeding the depth limit constructs MaxParsingDepthExceeded under a comparison and returns it as Err",
                  "the depth limit does not lead to Err(MaxParsingDepthExceeded) in %s" % short(fn), where(b, line))
    depth_error_is_propagated(ctx, facts)
    # ---------------------------------------------------------------- R20.5 = C17's rules (added after seed C20-b)
    # trimmed and untrimmed parses differ only in which skip tokens reach the tree stack; every site that counts or filters
    # stack entries must use the same (effective) skip predicate, otherwise the option changes the arguments of the actions
    from . import c17
    c17.check(ctx)



def _propagated(body, local):
    """the Result in `local` leaves `body` as its return value: it is the operand of a `?` whose residual is converted into the
    return place, or it is moved into the return place directly"""
    from ..dataflow import forward_derived
    der = forward_derived(body, [local])
    if 0 in der:
        # moved / tail-returned; `_0 = Err(..)` built from the payload also counts
        for bi, si, p, rv, line, mac in body.assigns():
            if p == [0] and rv[0] == "use" and rv[1][0] in ("c", "m") and rv[1][1][0] in der:
                return True
    for c in body.calls():
        if "std::ops::Try::branch" in c.names() and c.args and c.args[0][0] in ("c", "m") and c.args[0][1][0] in der:
            d2 = forward_derived(body, [c.dest[0]])
            for r in body.calls():
                if "std::ops::FromResidual::from_residual" in r.names() and r.dest == [0] and r.args and \
                        r.args[0][0] in ("c", "m") and r.args[0][1][0] in d2:
                    return True
    return False


def depth_error_is_propagated(ctx, facts):
    """R20.6 (added after seed C20-c)"""
    root = facts.body(ll.PARSE_INTO)
    n = 0
    for b in facts.family(root):
        for c in b.calls():
            if ll.PUSH_PRODUCTION not in c.names():
                continue
            n += 1
            ok = False
            how = ""
            if b is root:
                ok = _propagated(b, c.dest[0])
                how = "`?` in parse_into"
            else:
                # inside a closure: the closure returns it, and the value the closure's consumer produces is propagated
                inner = c.dest == [0] or _propagated(b, c.dest[0])
                outer = False
                parent = b.root_fn(facts)
                for pc in parent.calls():
                    for a in pc.args:
                        if a[0] in ("c", "m") and len(a[1]) == 1:
                            from ..dataflow import single_def
                            d = single_def(parent, a[1][0])
                            if d and d[0] == "assign" and d[3][0] == "agg" and d[3][1] == "closure" and d[3][2] == b.path:
                                outer = outer or _propagated(parent, pc.dest[0])
                ok = inner and outer
                how = "returned by a closure whose consumer's result is propagated"
            ctx.check(ok, "R20.6", "parse_into|push_production-result-propagated|%d" % n,
                      "the Result of push_production is propagated (%s)" % how,
                      "the Result of push_production is not propagated out of parse_into (it is only inspected): when the depth "
                      "limit is exceeded the parse does not end with MaxParsingDepthExceeded but with whatever the code behind "
                      "the loop decides (SyntaxErrors, UnprocessedInput or even success)", where(b, c.line))
    ctx.require_floor("R20.6", "push_production_calls", n, 1)
