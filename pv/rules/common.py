"""Shared rule kinds (DESIGN §2.2)."""
from .. import cfg
from ..dataflow import operand_term, raw_place, raw_operand_place, term_str, local_term
from ..facts import AnchorMissing

RT = "parol_runtime.lib"
PA = "parol.lib"
PABIN = "parol.bin"
LS = "parol_ls.bin"


def where(body, line=None):
    return "%s:%d" % (body.file, line if line else body.lo)


def short(path):
    """drop the crate prefix of a pretty path"""
    return path.split("::", 1)[1] if "::" in path else path


def fn_key(body, facts):
    """stable key part for a function: crate|module|root function (closures are folded into their root)"""
    root = body.root_fn(facts)
    crate = body.crate.split(".")[0]
    name = root.path
    if name.startswith(root.module + "::"):
        name = name[len(root.module) + 2:]
    mod = root.module.split("::", 1)[1] if "::" in root.module else ""
    return "%s|%s|%s" % (crate, mod, name)


def callers_of(facts, paths, crates=None):
    out = []
    ps = set(paths)
    for b in facts.bodies:
        if crates is not None and b.crate not in crates:
            continue
        for c in b.calls():
            if c.names() & ps:
                out.append((b, c))
    return out


def who_may_call(ctx, facts, rule, callee, allowed_roots, crates, what, floor=None, label=None):
    """every call site of `callee` (declared or resolved path) inside `crates` lies in a function whose
    root function path is in allowed_roots"""
    sites = callers_of(facts, [callee], crates)
    label = label or short(callee)
    for b, c in sites:
        root = b.root_fn(facts)
        ctx.count("call_sites")
        if root.path in allowed_roots:
            ctx.ok(rule, "%s<-%s" % (label, short(root.path)), "allowed caller of %s" % label, where(b, c.line))
        else:
            ctx.bad(rule, "%s|%s|who-may-call" % (fn_key(b, facts), label),
                    "%s is called from %s; %s" % (label, short(b.path), what), where(b, c.line))
    if floor is not None:
        ctx.require_floor(rule, "callers:%s" % label, len(sites), floor)
    return sites


def only_via_edge(body, d, values, block):
    """True when `block` can be reached from switch block `d` only through the edges whose switch value is in
    `values` (use None for `otherwise`), i.e. block is unreachable from every other edge without re-entering d"""
    good = set()
    other = set()
    for v, t in body.switch_edges(d):
        if v in values:
            good.add(t)
        else:
            other.add(t)
    other -= good
    for t in other:
        if block in cfg.reachable_from(body, t, avoid_blocks=[d]):
            return False
    return bool(good)


def switch_term(body, d):
    t = body.term(d)
    if t[0] != "switch":
        return None
    return operand_term(body, t[1])


def ok_blocks(body, variant="Ok", adt="std::result::Result"):
    """blocks assigning `_0 = adt::variant(..)`"""
    out = []
    for bi, si, p, rv, line, mac in body.assigns():
        if p == [0] and rv[0] == "agg" and rv[2] == adt and rv[3] == variant:
            out.append((bi, rv, line))
    return out


def calls_in(body, path_suffix=None, paths=None):
    out = []
    for c in body.calls():
        ns = c.names()
        if paths and ns & set(paths):
            out.append(c)
        elif path_suffix and any(n.endswith(path_suffix) for n in ns):
            out.append(c)
    return out


def call_arg_place(body, call, i):
    """raw place (temporaries expanded) of argument i of a call, or None for constants"""
    if i >= len(call.args):
        return None
    return raw_operand_place(body, call.args[i])


def place_field_names(p):
    return [e[2] for e in p[1:] if isinstance(e, list) and e[0] == "f"]


def place_reads_field(p, name, adt=None):
    for e in p[1:]:
        if isinstance(e, list) and e[0] == "f" and e[2] == name and (adt is None or e[3] == adt):
            return True
    return False


def all_places(body):
    """iterate (bb, kind, place, line) over every place mentioned in the body (reads and writes)"""
    def ops(o):
        if o and o[0] in ("c", "m"):
            yield o[1]
    for bi, blk in enumerate(body.blocks):
        for s in blk["s"]:
            if s[0] == "a":
                yield bi, "w", s[1], s[3]
                rv = s[2]
                k = rv[0]
                if k in ("use", "rep"):
                    for p in ops(rv[1]):
                        yield bi, "r", p, s[3]
                elif k in ("ref", "ptr", "cfd", "disc"):
                    yield bi, "r", rv[-1], s[3]
                elif k == "cast":
                    for p in ops(rv[2]):
                        yield bi, "r", p, s[3]
                elif k == "bin":
                    for o in (rv[2], rv[3]):
                        for p in ops(o):
                            yield bi, "r", p, s[3]
                elif k == "un":
                    for p in ops(rv[2]):
                        yield bi, "r", p, s[3]
                elif k == "agg":
                    for o in rv[4]:
                        for p in ops(o):
                            yield bi, "r", p, s[3]
        t = blk["t"]
        l = blk.get("l", 0)
        if t[0] in ("call", "tailcall"):
            for o in t[2]:
                for p in ops(o):
                    yield bi, "r", p, l
            if t[0] == "call":
                yield bi, "w", t[3], l
        elif t[0] in ("switch", "assert"):
            for p in ops(t[1]):
                yield bi, "r", p, l
        elif t[0] == "drop":
            yield bi, "d", t[1], l


def fields_read(body, adt):
    """set of (field name) of `adt` read anywhere in body (through any place projection)"""
    out = set()
    for bi, kind, p, line in all_places(body):
        for i, e in enumerate(p[1:]):
            if isinstance(e, list) and e[0] == "f" and e[3] == adt:
                # a write to exactly this field (last projection) is not a read
                if kind == "w" and i == len(p) - 2:
                    continue
                out.add(e[2])
    return out


def str_consts(body):
    """all &str constants mentioned in a body"""
    out = []
    def scan(o, line):
        if o and o[0] == "k" and isinstance(o[2], str) and o[1].replace("'static ", "") in ("&str", "&&str", "&&&str") \
                or o and o[0] == "k" and isinstance(o[2], str) and o[1].startswith("&[u8"):
            out.append((o[2], line))
    for bi, blk in enumerate(body.blocks):
        for s in blk["s"]:
            if s[0] == "a":
                rv = s[2]
                k = rv[0]
                if k in ("use", "rep"):
                    scan(rv[1], s[3])
                elif k == "cast":
                    scan(rv[2], s[3])
                elif k == "bin":
                    scan(rv[2], s[3]); scan(rv[3], s[3])
                elif k == "agg":
                    for o in rv[4]:
                        scan(o, s[3])
        t = blk["t"]
        if t[0] in ("call", "tailcall"):
            for o in t[2]:
                scan(o, blk.get("l", 0))
    return out


def classify_switch(body, d):
    """what a switch block branches on:
    ('call', Call, negated) | ('qm', Call) | ('field', root, elems) | ('disc', term) | ('bin', op, a, b) | ('other', term)"""
    t = body.term(d)
    if t[0] != "switch":
        return None
    term = operand_term(body, t[1])
    neg = False
    while term[0] == "un" and term[1] == "Not":
        term = term[2]
        neg = not neg
    if term[0] == "call":
        return ("call", term[1], neg)
    if term[0] == "disc":
        inner = term[1]
        if inner[0] == "call":
            c = inner[1]
            if "std::ops::Try::branch" in c.names():
                return ("qm", c)
            return ("disc-call", c)
        return ("disc", inner)
    if term[0] == "path":
        return ("field", term[1], term[2], neg)
    if term[0] == "bin":
        return ("bin", term[1], term[2], term[3])
    return ("other", term)


def control_deps(body, block, cd=None):
    """[(switch block, successor taken, classification)] the block is control dependent on"""
    if cd is None:
        cd = cfg.control_dependence(body)
    out = []
    for a, s in sorted(cd[block]):
        out.append((a, s, classify_switch(body, a)))
    return out


def transitive_control_deps(body, block, cd=None, through_qm=False):
    """control dependence closed transitively (a block depends on everything its controllers depend on).
    `?` branches are error plumbing (their other edge leaves the function with Err): by default the closure
    does not continue through them."""
    if cd is None:
        cd = cfg.control_dependence(body)
    seen = set()
    work = [block]
    out = []
    while work:
        b = work.pop()
        for a, s in cd[b]:
            if (a, s) not in seen:
                seen.add((a, s))
                k = classify_switch(body, a)
                out.append((a, s, k))
                if through_qm or not (k and k[0] == "qm"):
                    work.append(a)
    return out


def is_log_block(body, b):
    m = body.blocks[b].get("m", "")
    return "$crate::log" in m or "$crate::__log" in m or m.endswith("trace") or m.endswith("debug")


def qm_error_edges(body):
    """the `Break` edges of `?` branches (error propagation exits)"""
    out = set()
    for b in range(len(body.blocks)):
        k = classify_switch(body, b)
        if k and k[0] == "qm":
            for v, t in body.switch_edges(b):
                if v == 1:
                    out.add((b, t))
    # edges into `unreachable` blocks never execute
    for b in range(len(body.blocks)):
        for s in body.succs(b):
            if body.term(s)[0] == "unreach":
                out.add((b, s))
    return out


def control_dependence_no_errors(body):
    """control dependence with the error exits of `?` removed: 'assuming no callee fails'"""
    return cfg.control_dependence(body, avoid_edges=qm_error_edges(body))


EMPTY_TESTS = {"std::vec::Vec::is_empty", "std::collections::BTreeSet::is_empty", "std::collections::HashSet::is_empty",
               "core::slice::is_empty", "std::collections::BTreeMap::is_empty", "std::collections::HashMap::is_empty",
               "std::string::String::is_empty", "core::str::is_empty"}


def success_defs(body):
    """blocks that define the return place with something that is not Err(..):
    Ok(..) aggregates and calls writing _0 directly (tail delegation)"""
    out = []
    for bi, si, p, rv, line, mac in body.assigns():
        if p == [0]:
            if rv[0] == "agg" and rv[2] == "std::result::Result" and rv[3] == "Err":
                continue
            out.append((bi, line, "assign"))
    for c in body.calls():
        if c.dest == [0]:
            if c.names() & {"std::ops::FromResidual::from_residual"}:
                continue
            out.append((c.bb, c.line, "call:" + (c.path or "?")))
    return out


def emptiness_gate(ctx, facts, body, rule, checker, key, what):
    """R-gate: every success definition of `body` is dominated by a call of `checker`, and reachable only through
    the `is empty` edge of an emptiness test of (a value derived from) its result.  Returns (call, derived locals)"""
    cs = body.calls_to(checker)
    if len(cs) != 1:
        raise AnchorMissing("%s: expected exactly one call of %s, found %d" % (short(body.path), short(checker), len(cs)))
    c = cs[0]
    derived = forward_derived(body, [c.dest[0]])
    dom = cfg.Dom(body)
    gates = []
    for d in range(len(body.blocks)):
        k = classify_switch(body, d)
        if k and k[0] == "call" and (k[1].names() & EMPTY_TESTS):
            a0 = k[1].args[0]
            if a0[0] in ("c", "m") and a0[1][0] in derived:
                # is_empty()==true edge: non-zero unless negated
                vals = {v for v, _t in body.switch_edges(d) if v != 0} if not k[2] else {0}
                gates.append((d, vals))
    succ = success_defs(body)
    if not succ:
        raise AnchorMissing("%s has no success return" % short(body.path))
    for sb, line, kind in succ:
        ok = dom.dominates(c.bb, sb) and any(dom.dominates(d, sb) and only_via_edge(body, d, vals, sb) for d, vals in gates)
        ctx.check(ok, rule, "%s|%s" % (key, kind.split("::")[-1]),
                  "success (%s, bb%d) is dominated by %s and reachable only through the `is empty` edge of its result"
                  % (kind, sb, short(checker)),
                  "success (%s) is reachable without passing the emptiness test of %s: %s" % (kind, short(checker), what),
                  where(body, line))
    return c, derived, gates


from ..dataflow import forward_derived  # noqa: E402


def recv_fields(body, call, idx=0):
    """field names on the raw place of argument idx of a call (receiver by default)"""
    if idx >= len(call.args):
        return []
    rp = raw_operand_place(body, call.args[idx])
    if rp is None:
        return []
    # look through one Deref::deref / borrow call (Vec -> slice, Rc -> RefCell ...)
    out = place_field_names(rp)
    d = None
    from ..dataflow import single_def as _sd
    hops = 0
    while not out and hops < 4:
        d = _sd(body, rp[0])
        if d and d[0] == "call" and d[3].args and (d[3].names() & {
                "std::ops::Deref::deref", "std::ops::DerefMut::deref_mut", "std::ops::Index::index",
                "std::ops::IndexMut::index_mut", "std::vec::Vec::as_slice", "core::slice::iter",
                "std::borrow::Borrow::borrow", "std::convert::AsRef::as_ref"}):
            rp = raw_operand_place(body, d[3].args[0])
            if rp is None:
                break
            out = place_field_names(rp)
            hops += 1
        else:
            break
    return out


def enumerate_paths(body, start, targets, limit=20000):
    """all acyclic paths start -> target as lists of (block, edge value or None for otherwise/unconditional)"""
    targets = set(targets)
    out = []
    stack = [(start, [], frozenset([start]))]
    n = 0
    while stack:
        b, path, seen = stack.pop()
        n += 1
        if n > limit:
            raise RuntimeError("path enumeration budget exceeded in %s" % body.path)
        if b in targets:
            out.append(path + [(b, "end")])
            continue
        t = body.term(b)
        if t[0] == "switch":
            edges = [(v, tg) for v, tg in t[2]] + [(None, t[3])]
        else:
            edges = [("-", s) for s in body.succs(b)]
        for v, s in edges:
            if s in seen:
                continue
            if body.term(s)[0] == "unreach":
                continue
            stack.append((s, path + [(b, v)], seen | {s}))
    return out


def path_constraints(body, path):
    """[(term, value, taken_values_excluded)] for the switch edges of a path: value None = otherwise"""
    out = []
    for b, v in path:
        if v in ("-", "end"):
            continue
        t = body.term(b)
        term = operand_term(body, t[1])
        if v is None:
            out.append((term, None, [x for x, _ in t[2]]))
        else:
            out.append((term, v, None))
    return out


def removes_from_vec(call):
    n = (call.path or "").split("::")[-1]
    return n in ("drain", "clear", "truncate", "pop", "remove", "swap_remove", "retain", "split_off", "take",
                 "dedup", "drain_filter", "extract_if", "retain_mut", "set_len") and \
        ("std::vec::Vec" in (call.self_ty or "") or call.path in ("std::mem::take", "std::mem::replace", "std::mem::swap"))


def closure_of_arg_any(facts, body, call):
    """the closure literal passed as any argument of a call"""
    from ..dataflow import single_def as _sd
    for a in call.args:
        if a[0] in ("c", "m") and len(a[1]) == 1:
            d = _sd(body, a[1][0])
            if d and d[0] == "assign" and d[3][0] == "agg" and d[3][1] == "closure":
                cb = facts.body_by_path_opt(d[3][2])
                if cb is not None:
                    return cb
    return None


def guards_on_all_paths(body, block, dom=None):
    """[(switch block a, classify_switch(a), truth)] for every branch that holds on *every* path to `block`:
    a dominates block and block is reachable from a only through edges of one polarity (truth = the branch condition's
    value on those edges, `otherwise` of a bool switch counting as true).  Unlike control dependence this does not accept
    tests that can be bypassed (`false && test`, a test inside one arm of an earlier branch)."""
    dom = dom or cfg.Dom(body)
    out = []
    for a in dom.dominators(block):
        if a == block:
            continue
        t = body.term(a)
        if t[0] != "switch":
            continue
        edges = body.switch_edges(a)
        via = []
        for v, tg in edges:
            if tg == block or block in cfg.reachable_from(body, tg, avoid_blocks=[a]):
                via.append(v)
        if not via or len(set(via)) == len({v for v, _t in edges}):
            continue
        k = classify_switch(body, a)
        truth = any(v != 0 for v in via)        # None (otherwise) != 0
        if k and k[0] == "call" and k[2]:
            truth = not truth
        out.append((a, k, truth))
    return out


def fmt_templates(body):
    """[(line, pieces, [argument root local | None], [argument name | None])] for every format_args! expansion in `body`:
    pieces from artefact.rx.decode_fmt_template (('lit', text) | ('arg', index)), arguments in *index* order
    (format_args! keeps each distinct argument once)."""
    from ..artefact.rx import decode_fmt_template, Unsupported
    from ..dataflow import single_def, raw_operand_place
    out = []
    for c in body.calls():
        if (c.path or "") != "std::fmt::Arguments::new" or len(c.args) < 2:
            continue
        t = operand_term(body, c.args[0])
        if t[0] != "const" or not isinstance(t[2], str):
            continue
        try:
            pieces = decode_fmt_template(t[2])
        except Unsupported:
            continue
        rp = raw_operand_place(body, c.args[1])
        d = single_def(body, rp[0]) if rp else None
        roots, names = [], []
        if d and d[0] == "assign" and d[3][0] == "agg" and d[3][1] == "array":
            for o in d[3][4]:
                r2 = raw_operand_place(body, o)
                d2 = single_def(body, r2[0]) if r2 else None
                arg = None
                if d2 and d2[0] == "call" and d2[3].args:
                    arg = d2[3].args[0]
                    r3 = raw_operand_place(body, arg)
                    if r3 and len(r3) >= 2 and isinstance(r3[1], list) and r3[1][0] == "f":
                        d3 = single_def(body, r3[0])
                        if d3 and d3[0] == "assign" and d3[3][0] == "agg" and d3[3][1] == "tuple" and r3[1][1] < len(d3[3][4]):
                            arg = d3[3][4][r3[1][1]]
                rr = raw_operand_place(body, arg) if arg else None
                roots.append(rr[0] if rr else None)
                names.append(body.local_name(rr[0]) if rr else None)
        out.append((c.line, pieces, roots, names))
    return out
