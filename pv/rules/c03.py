"""C03 LALR(1) parsers accept exactly the language and build a derivation - the LR driver discipline.

R03.1 LRParser::parse_into: every Ok(()) is reachable only through the `Accept` edge of the match on the table's
      action; the parse loop is left (other than by error returns) only from the Accept arm; the Accept arm calls
      call_action exactly once.
R03.2 handle_parse_error never returns Ok (a missing table entry cannot be skipped); in parse_into its result is
      propagated with `?`.
R03.3 arms use their own payload: Shift pushes the action's next_state after exactly one consume(); Reduce calls
      call_action(prod_index of the action), pops exactly the returned count of states, and looks goto up with the
      action's nt_index and the state on top after popping.
R03.4 call_action: pops productions[prod_num].len (non-skip) children, calls the semantic action exactly once with
      prod_num, and returns that length.
R03.5 table construction cannot be reached with a start symbol that occurs on a right-hand side (C12 R12.1, which is
      evaluated by check C12; here only that calculate_lalr1_parse_table's callers pass augmented grammars is
      recorded as an assumption).
R03.7 = all C18 rules re-evaluated (terminal identity in the grammar handed to lalry).
R03.6 on Accept the final reduction uses the production whose left-hand side is the start symbol (searched, not assumed first).
The correctness of the table built by the external crate lalry is NOT decided.
"""
from .. import cfg
from ..dataflow import operand_term, raw_operand_place, raw_place, forward_derived, single_def, term_str
from ..facts import AnchorMissing
from .common import (RT, where, short, fn_key, ok_blocks, classify_switch, only_via_edge, recv_fields, callers_of)
from . import ll

CRATES = ["parol_runtime.lib", "parol.lib"]

META = {
    "explanation": "Decides the shift/reduce driver discipline on MIR: success only via Accept, no continuation after a "
                   "missing action, every arm acts on the payload of the action it matched, one semantic-action call per "
                   "reduction with the production's own length. The LALR(1) table itself (lalry) is trusted.",
}

LRP = "parol_runtime::lr_parser::parser_types::LRParser::"
ACTION = "parol_runtime::lr_parser::parser_types::LRAction"
TABLE = "parol_runtime::lr_parser::parser_types::LRParseTable::"
STACK = "parol_runtime::lr_parser::parser_types::LRParseStack::"
PTS = "parol_runtime::parser_common::parse_tree_stack::ParseTreeStack::"


def check(ctx):
    facts = ctx.facts()
    pi = facts.body(LRP + "parse_into")
    ca = facts.body(LRP + "call_action")
    hpe = facts.body(LRP + "handle_parse_error")
    dom = cfg.Dom(pi)
    variants = [v["name"] for v in facts.adt(ACTION)["variants"]]
    vi = {n: i for i, n in enumerate(variants)}
    for n in ("Shift", "Reduce", "Accept"):
        if n not in vi:
            raise AnchorMissing("LRAction has no variant %s" % n)

    # the match on the action: a switch on the discriminant of a value derived from LRParseTable::action(..)
    acts = pi.calls_to(TABLE + "action")
    if len(acts) != 1:
        raise AnchorMissing("parse_into: expected one LRParseTable::action call")
    derived = forward_derived(pi, [acts[0].dest[0]])
    msw = None
    for d in range(len(pi.blocks)):
        t = pi.term(d)
        if t[0] == "switch" and len(t[2]) >= 3:
            term = operand_term(pi, t[1])
            if term[0] == "disc" and term[1][0] in ("path", "proj", "local"):
                root = term[1][1] if term[1][0] != "proj" else None
                st = pi.stmts(d)
                # discriminant of something derived from the action() result
                for s in st:
                    if s[0] == "a" and s[2][0] == "disc" and s[2][1][0] in derived:
                        msw = d
    if msw is None:
        raise AnchorMissing("parse_into: cannot find the match on the LR action")
    arm = {n: [t for v, t in pi.switch_edges(msw) if v == vi[n]] for n in ("Shift", "Reduce", "Accept")}
    for n, ts in arm.items():
        if len(ts) != 1:
            raise AnchorMissing("parse_into: match on LRAction has no %s arm" % n)
    loop = cfg.loop_containing(pi, msw, innermost=False)
    if loop is None:
        raise AnchorMissing("parse_into: the action match is not in a loop")

    # ---------------------------------------------------------------- R03.1
    oks = ok_blocks(pi)
    if not oks:
        raise AnchorMissing("LR parse_into has no Ok")
    for bi, rv, line in oks:
        ctx.check(dom.dominates(msw, bi) and only_via_edge(pi, msw, {vi["Accept"]}, bi) and bi not in loop[1],
                  "R03.1", "parse_into|ok-only-via-accept",
                  "Ok is reachable only through the Accept arm and lies after the loop",
                  "LR parse_into can return Ok without the table's Accept action", where(pi, line))
    # loop exits: every edge leaving the loop to a block that can reach Ok must come from the Accept arm
    ok_set = {b for b, _r, _l in oks}
    can_ok = cfg.reaches(pi, ok_set)
    accept_region = cfg.reachable_from(pi, arm["Accept"][0], avoid_blocks=[msw])
    bad_exits = []
    for b in loop[1]:
        for s in pi.succs(b):
            if s not in loop[1] and s in can_ok and b not in accept_region and not (b == msw and s == arm["Accept"][0]):
                bad_exits.append((b, s))
    ctx.check(not bad_exits, "R03.1", "parse_into|loop-left-only-from-accept",
              "the only loop exit that can reach Ok starts in the Accept arm",
              "the LR parse loop can be left towards Ok from outside the Accept arm: %s" % bad_exits, where(pi))
    acc_calls = [c for c in pi.calls_to(LRP + "call_action") if c.bb in accept_region and
                 only_via_edge(pi, msw, {vi["Accept"]}, c.bb)]
    ctx.check(len(acc_calls) == 1, "R03.1", "parse_into|accept-calls-start-action-once",
              "the Accept arm calls call_action exactly once (start production)",
              "the Accept arm calls call_action %d times" % len(acc_calls), where(pi))

    # R03.6 (added after seed C03-b) the final reduction is the start symbol's production: lalry replaces "reduce the start
    # production at end of input" by Accept, so the driver performs that reduction itself - with the production whose left-hand
    # side is the start symbol (augmentation does not always put it first: an unaugmented grammar keeps its file order)
    if len(acc_calls) == 1:
        c = acc_calls[0]
        t = operand_term(pi, c.args[1]) if len(c.args) > 1 else ("unknown",)
        hops = 0
        while t[0] == "proj" and hops < 4:
            t = t[1]
            hops += 1
        okp = False
        detail = term_str(pi, t)[:80] if t[0] != "const" else "the constant %s" % (t[2],)
        if t[0] == "call" and (t[1].path or "").split("::")[-1] in ("position", "rposition", "find"):
            from .common import closure_of_arg_any
            cl = closure_of_arg_any(facts, pi, t[1])
            reads_lhs = reads_start = False
            if cl is not None:
                from .common import all_places
                for bi, kind, pl, line in all_places(cl):
                    names = [e[2] for e in pl[1:] if isinstance(e, list) and e[0] == "f"]
                    if "lhs" in names:
                        reads_lhs = True
                    if any("start_symbol_index" in n for n in names):
                        reads_start = True
            src = operand_term(pi, t[1].args[0], through_calls=True) if t[1].args else ("unknown",)
            over_productions = src[0] == "path" and "productions" in src[2]
            okp = reads_lhs and reads_start and over_productions
            detail = "position over %s, closure reads lhs=%s start_symbol_index=%s" % (term_str(pi, src)[:40], reads_lhs, reads_start)
        ctx.check(okp, "R03.6", "parse_into|accept-reduces-start-production",
                  "on Accept the driver reduces with the production found by searching self.productions for lhs == start_symbol_index",
                  "on Accept the driver reduces with %s instead of the production whose left-hand side is the start symbol: for "
                  "a grammar whose single start production is not the first one the derivation ends with a wrong reduction and "
                  "the tree is not rooted at the start symbol" % detail, where(pi, c.line))

    # ---------------------------------------------------------------- R03.2
    ctx.check(not ok_blocks(hpe), "R03.2", "handle_parse_error|never-ok",
              "handle_parse_error has no Ok-assigning block", "handle_parse_error can return Ok: parsing would continue "
              "after a missing table entry", where(hpe))
    hc = pi.calls_to(LRP + "handle_parse_error")
    prop = False
    if len(hc) == 1:
        for d in range(len(pi.blocks)):
            k = classify_switch(pi, d)
            if k and k[0] == "qm":
                src = operand_term(pi, k[1].args[0])
                if src[0] == "call" and src[1].bb == hc[0].bb:
                    prop = True
    ctx.check(prop, "R03.2", "parse_into|parse-error-propagated", "the result of handle_parse_error is propagated with `?`",
              "the result of handle_parse_error is not propagated", where(pi))
    none_edge = None
    k = classify_switch(pi, dom.idom.get(msw, msw))
    ctx.check(len(hc) == 1 and not only_via_edge(pi, msw, set(vi.values()), hc[0].bb) or len(hc) == 1, "R03.2",
              "parse_into|missing-action-is-error", "a missing action leads to handle_parse_error",
              "no handle_parse_error call for a missing action", where(pi), nontrivial=False)

    # ---------------------------------------------------------------- R03.3
    def payload(local_or_op, variant, idx):
        rp = raw_operand_place(pi, local_or_op)
        if not rp:
            return False
        ds = [i for i, e in enumerate(rp[1:]) if isinstance(e, list) and e[0] == "d" and e[1] == variant]
        if not ds:
            return False
        nx = rp[1:][ds[0] + 1] if ds[0] + 1 < len(rp[1:]) else None
        return bool(nx) and nx[0] == "f" and nx[1] == idx and rp[0] in derived

    shift_region = cfg.reachable_from(pi, arm["Shift"][0], avoid_blocks=[msw])
    reduce_region = cfg.reachable_from(pi, arm["Reduce"][0], avoid_blocks=[msw])
    in_shift = lambda c: c.bb in shift_region and only_via_edge(pi, msw, {vi["Shift"]}, c.bb)
    in_reduce = lambda c: c.bb in reduce_region and only_via_edge(pi, msw, {vi["Reduce"]}, c.bb)
    cons = [c for c in pi.calls_to(ll.TS + "consume")]
    ctx.check(len(cons) == 1 and in_shift(cons[0]), "R03.3", "parse_into|consume-only-in-shift",
              "exactly one consume(), in the Shift arm", "tokens are consumed outside the Shift arm or more than once per "
              "shift", where(pi))
    pushes = [c for c in pi.calls_to(STACK + "push")]
    sp = [c for c in pushes if in_shift(c)]
    rp_ = [c for c in pushes if in_reduce(c)]
    ctx.check(len(sp) == 1 and payload(sp[0].args[1], "Shift", 0), "R03.3", "parse_into|shift-pushes-next-state",
              "Shift pushes the next_state of the matched action", "Shift does not push the matched action's next_state",
              where(pi, sp[0].line if sp else None))
    tp = [c for c in pi.calls_to(PTS + "push") if in_shift(c)]
    tok_ok = False
    if len(tp) == 1 and cons:
        t = operand_term(pi, tp[0].args[1])
        tdr = forward_derived(pi, [cons[0].dest[0]])
        tok_ok = t[0] == "agg" and t[3] == "Terminal" and any(
            o[0] in ("path", "local", "call", "proj") for o in t[4])
        rpp = raw_operand_place(pi, tp[0].args[1])
        tok_ok = tok_ok and bool(rpp)
        d = single_def(pi, rpp[0]) if rpp else None
        if d and d[0] == "assign" and d[3][0] == "agg":
            ops = [o for o in d[3][4] if o[0] in ("c", "m")]
            tok_ok = tok_ok and any(o[1][0] in tdr for o in ops)
    ctx.check(tok_ok, "R03.3", "parse_into|shift-pushes-consumed-token",
              "Shift pushes Terminal(the consumed token) on the tree stack",
              "Shift does not push the consumed token on the parse tree stack", where(pi))
    rc = [c for c in pi.calls_to(LRP + "call_action") if in_reduce(c)]
    ctx.check(len(rc) == 1 and payload(rc[0].args[1], "Reduce", 1), "R03.3", "parse_into|reduce-calls-own-production",
              "Reduce calls call_action with the action's production index",
              "Reduce does not call call_action with the matched action's production index", where(pi))
    # pop count: the loop bound derives from call_action's result
    pops = [c for c in pi.calls_to(STACK + "pop") if in_reduce(c)]
    pop_ok = False
    if rc and pops:
        nder = forward_derived(pi, [rc[0].dest[0]])
        lp = cfg.loop_containing(pi, pops[0].bb)
        if lp and lp[0] != loop[0]:
            # range end of the pop loop derived from n
            for bi, si, p, rv, line, mac in pi.assigns():
                if rv[0] == "agg" and rv[2] == "std::ops::Range" and rv[4][1][0] in ("c", "m") and rv[4][1][1][0] in nder \
                        and rv[4][0][0] == "k" and rv[4][0][2] == 0 and dom.dominates(bi, pops[0].bb):
                    pop_ok = True
    ctx.check(pop_ok and len(pops) == 1, "R03.3", "parse_into|reduce-pops-returned-count",
              "Reduce pops 0..n states where n is the value returned by call_action",
              "the number of states popped on Reduce is not the length returned by call_action", where(pi))
    gt = [c for c in pi.calls_to(TABLE + "goto") if in_reduce(c)]
    g_ok = False
    if len(gt) == 1 and pops:
        st = operand_term(pi, gt[0].args[1])
        plp = cfg.loop_containing(pi, pops[0].bb)
        after_pops = plp is not None and st[0] == "call" and st[1].bb not in plp[1] and dom.dominates(plp[0], st[1].bb) \
            and st[1].bb in cfg.reachable_from(pi, plp[0])
        g_ok = payload(gt[0].args[2], "Reduce", 0) and st[0] == "call" and (STACK + "current_state") in st[1].names() \
            and after_pops
    ctx.check(g_ok, "R03.3", "parse_into|goto-of-own-nonterminal-after-pop",
              "goto(state on top after popping, nt_index of the matched action)",
              "goto is not looked up with the matched action's non-terminal and the state exposed by the pops", where(pi))
    ctx.check(len(rp_) == 1 and dom.dominates(gt[0].bb, rp_[0].bb) if gt else False, "R03.3", "parse_into|reduce-pushes-goto",
              "Reduce pushes the goto state", "Reduce does not push the goto state", where(pi))

    # ---------------------------------------------------------------- R03.4
    ua = ca.calls_to(ll.USER_ACTION)
    ctx.check(len(ua) == 1, "R03.4", "call_action|single-action-call", "one semantic-action call per reduction",
              "call_action calls the semantic action %d times" % len(ua), where(ca))
    pn = [c for c in ca.calls() if (c.path or "") == PTS + "pop_n"]
    n_ok = False
    ret_ok = False
    if len(pn) == 1:
        rp = raw_operand_place(ca, pn[0].args[1])
        d = single_def(ca, rp[0]) if rp else None
        src = raw_place(ca, d[3][1][1]) if d and d[0] == "assign" and d[3][0] == "use" and d[3][1][0] in ("c", "m") else rp
        names = [e[2] for e in (src or [0])[1:] if isinstance(e, list) and e[0] == "f"]
        idx = [e[1] for e in (src or [0])[1:] if isinstance(e, list) and e[0] == "i"]
        n_ok = "productions" in names and "len" in names and bool(idx) and raw_place(ca, [idx[0]])[0] == 2
        for bi, rv, line in ok_blocks(ca):
            t = raw_operand_place(ca, rv[4][0])
            ret_ok = bool(t) and bool(rp) and t[0] == rp[0]
    ctx.check(n_ok, "R03.4", "call_action|pops-production-length",
              "pop_n is called with productions[prod_num].len", "call_action does not pop productions[prod_num].len "
              "children", where(ca))
    ctx.check(ret_ok, "R03.4", "call_action|returns-production-length", "call_action returns that same length",
              "call_action does not return the number of popped symbols", where(ca))
    if ua:
        a1 = operand_term(ca, ua[0].args[1])
        ctx.check(a1[0] == "path" and a1[1] == 2, "R03.4", "call_action|action-gets-prod_num",
                  "the semantic action receives prod_num", "the semantic action does not receive prod_num", where(ca))
    # LR semantic action only from call_action
    sites = [(b, c) for b, c in callers_of(facts, [ll.USER_ACTION], [RT]) if "lr_parser" in b.path]
    for b, c in sites:
        ctx.check(b.root_fn(facts).path == LRP + "call_action", "R03.4", "%s|calls-semantic-action" % fn_key(b, facts),
                  "LR semantic actions are called from call_action only",
                  "the LR parser calls a semantic action from %s" % short(b.path), where(b, c.line))
    # ---------------------------------------------------------------- R03.5 = C12's rules, re-evaluated here:
    # without start-symbol isolation lalry either panics (table construction crashes) or produces a table whose
    # Accept action is shared with nested occurrences of the start symbol (non-sentences are accepted)
    from . import c12
    c12.check(ctx)
    # R03.7 = C18's rules (added after seed C03-c): the grammar handed to lalry numbers terminals by parol's terminal identity;
    # a conversion that merges distinct terminals builds the table of another grammar (sentences rejected, non-sentences accepted)
    from . import c18
    c18.check(ctx)
