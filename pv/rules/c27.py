"""C27 The language server's formatter preserves meaning and comments and is idempotent - thin clauses.

R27.1 field_read_coverage: every content-bearing field of the AST types reachable from ParolLs (a field whose type is an
      AST node, a Vec/Option/Box of one, or a token of Identifier / String / LiteralString / Regex) is read in the
      formatter (parol_ls::formatting::format::*, last_token.rs excluded): a child that is never read cannot be
      reproduced.  Fields whose leaves are fixed keyword tokens are content-free and only counted.
R27.2 no text-level rewriting of assembled output: str::replace / Regex::replace* applied to formatter text (which
      contains the user's terminals verbatim) rewrites the inside of string literals; every such call must be in the
      reviewed table.
R27.3 left-over comments: the Comments queue returned by the top-level Fmt::txt is turned into output text by
      Format::format (comments behind the last production are attached to no grammar element).
R27.4 single-line collapse: where normalize_to_single_line's result becomes the formatted text, the call is guarded by
      `!text.contains("//")` and `!text.contains("/*")` on that text (collapsing newlines behind a line comment swallows
      the rest of the right-hand side).
R27.5 a comment text taken off the pending queue is written on every path (only its own emptiness may suppress it).
R27.6 the characters Line::ends_with_nl accepts as line end are all removed by the line-end normalisations.
Idempotence, layout and comment order are NOT decided.
"""
import re

from ..dataflow import operand_term, raw_operand_place, forward_derived, single_def
from ..facts import AnchorMissing
from .common import (LS, where, short, fn_key, all_places, transitive_control_deps, control_dependence_no_errors)

CRATES = ["parol_ls.bin"]

META = {
    "explanation": "Decides necessary conditions of C27 on the formatter's MIR: no AST child is ignored, left-over comments "
                   "are emitted, the single-line collapse is guarded against comments, and text-level replacement of "
                   "assembled output is inventoried (known finding: ' | ' inside string literals is rewritten). "
                   "Idempotence and layout are behavioural and not decided.",
}

T = "parol_ls::parol_ls_grammar_trait::"
TOKEN_LEAVES = {"Identifier", "String", "LiteralString", "Regex"}
REPLACE_ALLOW = {}


def content_free(facts, ty, seen=None):
    """a type all of whose leaves are fixed keyword tokens"""
    seen = seen or set()
    m = re.findall(r"parol_ls::parol_ls_grammar_trait::(\w+)", ty)
    if not m:
        return "OwnedToken" in ty
    for name in m:
        if name in TOKEN_LEAVES:
            return False
        if name in seen:
            continue
        seen.add(name)
        a = facts.adts.get(T + name)
        if a is None:
            return False
        for v in a["variants"]:
            for fn, ft in v["fields"]:
                if not content_free(facts, ft, seen):
                    return False
    return True


def check(ctx):
    facts = ctx.facts()
    fmt_bodies = [b for b in facts.in_crate(LS) if b.module.startswith("parol_ls::formatting::format")
                  and not b.module.endswith("last_token") and not b.module.endswith("::test")]
    ctx.count("functions_analysed", len(fmt_bodies))
    reads = {}
    for b in fmt_bodies:
        for bi, kind, p, line in all_places(b):
            if kind != "r":
                continue
            for e in p[1:]:
                if isinstance(e, list) and e[0] == "f" and e[3].startswith(T):
                    reads.setdefault(e[3], set()).add(e[2])
    # AST types reachable from ParolLs
    reach = set()
    work = ["ParolLs"]
    while work:
        n = work.pop()
        if n in reach:
            continue
        reach.add(n)
        a = facts.adts.get(T + n)
        if a is None:
            continue
        for v in a["variants"]:
            for fn, ft in v["fields"]:
                work.extend(re.findall(r"parol_ls::parol_ls_grammar_trait::(\w+)", ft))
    n_fields = n_free = 0
    for n in sorted(reach):
        a = facts.adts.get(T + n)
        if a is None or a["kind"] != "struct":
            continue
        for fn, ft in a["variants"][0]["fields"]:
            n_fields += 1
            if n in TOKEN_LEAVES:
                continue
            if content_free(facts, ft):
                n_free += 1
                continue
            ctx.check(fn in reads.get(T + n, set()), "R27.1", "%s.%s|read-by-formatter" % (n, fn),
                      "read by the formatter", "AST field %s.%s carries grammar content but is never read by the formatter: "
                      "that part of the grammar cannot appear in the formatted text" % (n, fn),
                      "crates/parol-ls/src/formatting/format/")
    ctx.count("ast_fields", n_fields)
    ctx.count("content_free_fields", n_free)
    ctx.require_floor("R27.1", "ast_fields", n_fields, 100)

    # ---------------------------------------------------------------- R27.2
    n_rep = 0
    for b in fmt_bodies:
        for c in b.calls():
            p = c.path or ""
            if p in ("std::str::replace", "std::str::replacen", "core::str::replace") or p.endswith("Regex::replace_all") or p.endswith("Regex::replace"):
                n_rep += 1
                pat = operand_term(b, c.args[1]) if len(c.args) > 1 else ("?",)
                pats = repr(pat[2]) if pat[0] == "const" else "?"
                key = "%s|%s(%s)" % (fn_key(b, facts), p.split("::")[-1], pats)
                if key in REPLACE_ALLOW:
                    ctx.ok("R27.2", key, REPLACE_ALLOW[key], where(b, c.line))
                else:
                    ctx.bad("R27.2", key, "the formatter applies a textual %s with pattern %s to assembled output that contains "
                            "the user's terminals verbatim: text inside string literals that happens to contain the pattern is "
                            "rewritten (the grammar changes its meaning)" % (p.split("::")[-1], pats), where(b, c.line))
    ctx.count("text_replace_sites", n_rep)

    # ---------------------------------------------------------------- R27.3
    fm = [b for b in facts.in_crate(LS) if b.kind != "Closure" and b.trait_item == "parol_ls::formatting::format::traits::Format::format"]
    if len(fm) != 1:
        raise AnchorMissing("Format::format implementation not found (%d)" % len(fm))
    fm = fm[0]
    txt = [c for c in fm.calls() if (c.path or "").endswith("traits::Fmt::txt")]
    if len(txt) != 1:
        raise AnchorMissing("Format::format: expected one Fmt::txt call")
    # locals holding component 1 of the result
    comp1 = set()
    for bi, si, p, rv, line, mac in fm.assigns():
        if rv[0] == "use" and rv[1][0] in ("c", "m"):
            pl = rv[1][1]
            if pl[0] == txt[0].dest[0] and [e[1] for e in pl[1:] if isinstance(e, list) and e[0] == "f"] == [1]:
                comp1.add(p[0])
    der = forward_derived(fm, comp1) if comp1 else set()
    consumers = [c for c in fm.calls() if any(a[0] in ("c", "m") and a[1][0] in der for a in c.args)
                 and (c.path or "").split("::")[-1] not in ("is_empty", "drop", "drop_in_place", "len")
                 and "debug_assert" not in c.mac]
    emits = [c for c in consumers if "Comments" in (c.path or "")]
    ctx.check(bool(emits), "R27.3", "Format::format|leftover-comments-emitted",
              "the comment queue left over after formatting the grammar is converted to text (%s)"
              % [short(c.path) for c in emits],
              "Format::format discards the comment queue returned by the top-level txt(): comments behind the last production "
              "disappear from the formatted text", where(fm))

    # ---------------------------------------------------------------- R27.4
    n_norm = 0
    for b in fmt_bodies:
        for c in b.calls():
            if not (c.path or "").endswith("grammar_core_fmt::normalize_to_single_line"):
                continue
            der = forward_derived(b, [c.dest[0]], through_calls=lambda x: False)
            returned = False
            for bi, si, p, rv, line, mac in b.assigns():
                if p == [0] and rv[0] == "agg" and any(o[0] in ("c", "m") and o[1][0] in der for o in rv[4]):
                    returned = True
            if not returned:
                continue
            n_norm += 1
            cd = control_dependence_no_errors(b)
            seen_pats = set()
            from .common import guards_on_all_paths
            for a, k, truth in guards_on_all_paths(b, c.bb):
                if k and k[0] == "call" and (k[1].path or "").endswith("str::contains") and len(k[1].args) > 1:
                    pt = operand_term(b, k[1].args[1])
                    if pt[0] == "const" and not truth:
                        seen_pats.add(pt[2])
            ok = {"//", "/*"} <= seen_pats
            ctx.check(ok, "R27.4", "%s|collapse-guarded-against-comments" % fn_key(b, facts),
                      "the single-line result is used only when the text contains neither `//` nor `/*`",
                      "%s returns the whitespace-normalised single line without checking the text for `//` and `/*` (guards "
                      "seen: %s): a line comment inside the right-hand side swallows everything behind it"
                      % (short(b.path), sorted(seen_pats)), where(b, c.line))
    ctx.require_floor("R27.4", "collapse_sites", n_norm, 1)
    taken_comments_reach_output(ctx, facts, [b for b in facts.in_crate(LS) if (b.module or "").startswith("parol_ls::formatting")])
    line_terminator_sets_agree(ctx, facts)


# ------------------------------------------------------------------------------------------------------------------ R27.5
TAKERS = ("format_comments_before_token", "format_trailing_comment", "format_comments_before",
          "formatted_immediately_following_comment")


def taken_comments_reach_output(ctx, facts, bodies):
    """R27.5 (added after seed C27-b) a comment text that was taken off the pending queue reaches the output on every path: after
    each call of format_comments_before_token / format_trailing_comment, no path to a return avoids every use of the returned
    text - except through the edge on which the text itself was tested to be empty.  A use that additionally depends on the
    layout state (`if acc ends with a newline && !text.is_empty()`) drops the comment in the other layout; the queue no longer
    holds it, so it is gone for good."""
    from .. import cfg
    from ..dataflow import uses_of_local, forward_derived
    from .common import classify_switch
    n = 0
    for b in bodies:
        for c in b.calls():
            nm = (c.path or "").split("::")[-1]
            if nm not in TAKERS or not c.dest or len(c.dest) != 1:
                continue
            D = c.dest[0]
            if D == 0:
                continue        # a wrapper that returns the pair unchanged
            X = set()
            for bi, si, p, rv, line, mac in b.assigns():
                if rv[0] == "use" and rv[1][0] in ("c", "m") and rv[1][1][0] == D and len(rv[1][1]) > 1 and len(p) == 1 \
                        and isinstance(rv[1][1][1], list) and rv[1][1][1][0] == "f" and rv[1][1][1][1] == 0:
                    X.add(p[0])
            n += 1
            if not X:
                ctx.bad("R27.5", "%s|taken-comments@%s|unused" % (fn_key(b, facts), nm), "the comment text returned by %s is never "
                        "taken out of the result pair: the comments are removed from the queue and discarded" % nm, where(b, c.line))
                continue
            der = forward_derived(b, list(X), through_calls=lambda x: False)
            use_blocks = set()
            empties = []
            for x in der:
                for bi, si in uses_of_local(b, x):
                    if si is None:
                        cc = b.call_at(bi)
                        if cc is None:
                            continue
                        n2 = (cc.path or "").split("::")[-1]
                        if n2 in ("is_empty", "len", "drop", "ends_with", "starts_with", "contains", "trim", "trim_end"):
                            if n2 == "is_empty":
                                empties.append(cc)
                            continue
                        use_blocks.add(bi)
                    else:
                        st = b.stmts(bi)[si]
                        if st[0] == "a" and (st[1] == [0] or st[2][0] == "agg"):
                            use_blocks.add(bi)
            avoid_edges = set()
            for d in range(len(b.blocks)):
                k = classify_switch(b, d)
                if k and k[0] == "call" and k[1].bb in {e.bb for e in empties}:
                    for v, t in b.switch_edges(d):
                        truth = (v != 0)
                        if k[2]:
                            truth = not truth
                        if truth:
                            avoid_edges.add((d, t))
            tc = b.term(c.bb)
            succ = tc[4] if len(tc) > 4 and isinstance(tc[4], int) else None
            reach = cfg.reachable_from(b, succ, avoid_blocks=use_blocks, avoid_edges=avoid_edges) if succ is not None else set()
            dropped = bool(reach & set(b.return_blocks()))
            ctx.check(not dropped, "R27.5", "%s|taken-comments@%d-th-call-of-%s" % (
                fn_key(b, facts), 1 + len([x for x in b.calls() if (x.path or "").split("::")[-1] == nm and x.bb < c.bb]), nm),
                "the comment text taken off the queue is written on every path (uses at lines %s)"
                % sorted({b.line_of_block(u) for u in use_blocks}),
                "the comment text taken off the queue by %s can reach the end of the function without being written (its only "
                "uses, lines %s, depend on more than its own emptiness): in the other layout the comments are lost, e.g. "
                "`A: ( \"a\" /* c */ | \"b\" );` is formatted as `A: ( \"a\" | \"b\" )`"
                % (nm, sorted({b.line_of_block(u) for u in use_blocks})), where(b, c.line))
    ctx.require_floor("R27.5", "comment_take_sites", n, 25)


# ------------------------------------------------------------------------------------------------------------------ R27.6
def _char_pattern(facts, body, call, argi=1):
    """set of characters of a str pattern argument: a char constant, an array of chars, or a closure |c| c == 'x' || c == 'y'"""
    from ..dataflow import single_def, raw_operand_place
    from .common import closure_of_arg_any
    if len(call.args) <= argi:
        return None
    a = call.args[argi]
    if a[0] == "k" and a[1] == "char":
        return {a[2]}
    rp = raw_operand_place(body, a)
    d = single_def(body, rp[0]) if rp else None
    if d and d[0] == "assign" and d[3][0] == "agg" and d[3][1] == "array":
        vals = {o[2] for o in d[3][4] if o[0] == "k" and o[1] == "char"}
        return vals if len(vals) == len(d[3][4]) or vals else None
    if d and d[0] == "assign" and d[3][0] == "use" and d[3][1][0] == "k" and d[3][1][1] == "char":
        return {d[3][1][2]}
    cl = closure_of_arg_any(facts, body, call)
    if cl is not None:
        vals = set()
        for bi, si, p, rv, line, mac in cl.assigns():
            if rv[0] == "bin" and rv[1] == "Eq":
                for o in (rv[2], rv[3]):
                    if o[0] == "k" and o[1] == "char":
                        vals.add(o[2])
        return vals or None
    return None


def line_terminator_sets_agree(ctx, facts):
    """R27.6 (added after seed C27-c) one notion of 'line terminator' in the formatter: every character that Line::ends_with_nl
    accepts as the end of a line is removed by the line-end normalisations of FmtOptions::apply_formatting (trim_end_matches /
    trim_matches patterns).  The delimiter logic asks ends_with_nl whether a line break must still be added; a normalisation that
    leaves a character the predicate accepts (a lone '\\r' from a CRLF text) suppresses that line break, and the next declaration is
    glued to a line comment."""
    L = "parol_ls::formatting::line::Line::ends_with_nl"
    A = "parol_ls::formatting::fmt_options::FmtOptions::apply_formatting"
    lb, ab = facts.body(L), facts.body(A)
    pred = None
    for c in lb.calls():
        if (c.path or "").split("::")[-1] in ("ends_with", "contains"):
            pred = _char_pattern(facts, lb, c)
    if not pred:
        raise AnchorMissing("Line::ends_with_nl: no character pattern found")
    n = 0
    for c in ab.calls():
        nm = (c.path or "").split("::")[-1]
        if nm in ("trim_end_matches", "trim_matches", "trim_start_matches") and (c.self_ty or "") == "str":
            pat = _char_pattern(facts, ab, c)
            n += 1
            name = lambda s: sorted(repr(chr(x)) for x in s)
            ctx.check(pat is not None and pred <= pat, "R27.6", "apply_formatting|%s@%d|removes-all-terminators" % (nm, n),
                      "%s removes %s, ends_with_nl accepts %s" % (nm, name(pat or set()), name(pred)),
                      "FmtOptions::apply_formatting normalises a line end with %s(%s) but Line::ends_with_nl also accepts %s: a "
                      "character that is left (e.g. the '\\r' of a CRLF text behind a line comment) counts as 'line already ended', the "
                      "line break before the next declaration is not written and the declaration is swallowed by the comment"
                      % (nm, name(pat) if pat else "an unrecognised pattern", name(pred - (pat or set()))), where(ab, c.line))
    ctx.require_floor("R27.6", "line_end_normalisations", n, 2)
