"""RN.x - the naming discipline shared by C09 (canonicalisation), C10 (left factoring) and C33 (generated identifiers).

RN.0 post-condition of generate_name / gen_name themselves: a name is returned only behind a complete scan of a fresh copy of
     the exclusions made after the candidate's last modification (added after seed C33-a; see rn0).
RN.1 every call of parol::utils::generate_name gets as `exclusions` an iterator over a *collector of the structure
     being extended*: variable_names(productions), var_names(pr), Cfg::get_non_terminal_set(), the accumulator of the
     fold that collects the generated names, Scope.names, GrammarTypeInfo.non_terminal_types.keys().  When the
     exclusions arrive through a function parameter / closure capture, every caller must supply such a collector
     (interprocedural, depth <= 4).  Where the caller runs a transformation loop, the collector is re-evaluated in the
     loop (no stale exclusions).
RN.2 a name that is synthesised with one of the suffix literals "Opt" "List" "Group" "Suffix" flows into the
     `preferred_name` argument of generate_name and nowhere else.
RN.4 the suffix literals are never used to recognise names (see rn4; C09 R09.4, C10 R10.5; expected count 0).
RN.3 (C33) who_may_write(Scope.names): only Scope::add_name / Scope::new; every add_name argument at symbol-creating
     call sites comes from make_unique_name (inventory with floor).
"""
from .. import cfg
from ..callgraph import CallGraph
from ..dataflow import operand_term, raw_operand_place, raw_place, single_def, forward_derived, uses_of_local
from ..facts import AnchorMissing
from .common import PA, where, short, fn_key, recv_fields

GEN = "parol::utils::generate_name"
COLLECTORS = {
    "parol::transformation::canonicalization::variable_names": "all non-terminal names of the production list",
    "parol::transformation::left_factoring::left_factor::var_names": "all non-terminal names of the rule list",
    "parol::grammar::cfg::Cfg::get_non_terminal_set": "all non-terminals of the grammar",
}
ITER_HOPS = {"core::slice::iter", "std::collections::BTreeSet::iter", "std::collections::BTreeMap::keys", "std::vec::Vec::iter",
             "std::ops::Deref::deref", "std::iter::IntoIterator::into_iter", "std::clone::Clone::clone",
             "std::collections::HashMap::keys"}
SUFFIXES = ("Opt", "List", "Group", "Suffix")


def origin(facts, cg, body, op, depth=9, seen=None):
    """classify where an exclusions value comes from; returns (kind, detail, [(body, call)] evidence)"""
    seen = seen or set()
    rp = raw_operand_place(body, op) if op[0] in ("c", "m") else None
    hops = 0
    while rp is not None and hops < 8:
        hops += 1
        names = [e[2] for e in rp[1:] if isinstance(e, list) and e[0] == "f"]
        root = rp[0]
        # field based collectors
        if "names" in names and any(isinstance(e, list) and e[0] == "f" and e[3].endswith("symbol_table::Scope") for e in rp[1:]):
            return ("collector", "Scope.names", [])
        if "non_terminal_types" in names:
            return ("collector", "GrammarTypeInfo.non_terminal_types", [])
        d = single_def(body, root)
        if d and d[0] == "call":
            c = d[3]
            if c.names() & set(COLLECTORS):
                n = [x for x in c.names() if x in COLLECTORS][0]
                return ("collector", short(n), [(body, c)])
            if c.names() & ITER_HOPS and c.args:
                rp = raw_operand_place(body, c.args[0])
                continue
            return ("call", short(c.path or "?"), [(body, c)])
        # function parameter
        if 1 <= root <= body.nargs and not [x for x in body.defs(root) if x[0] in ("assign", "call")]:
            if body.kind == "Closure":
                if root == 1:
                    # captured variable: (*_1).N  -> name of the upvar
                    up = [e[2] for e in rp[1:] if isinstance(e, list) and e[0] == "f" and e[3].startswith("closure:")]
                    if up:
                        return from_parent(facts, cg, body, up[0], depth, seen)
                # closure parameter: the fold accumulator idiom  fold(init, |mut acc, x| generate_name(acc.iter(), ..))
                parent = facts.body_by_path_opt(body.parent)
                if parent is not None and root == 2:
                    for c in parent.calls():
                        if (c.path or "").endswith("Iterator::fold"):
                            for a in c.args:
                                if a[0] in ("c", "m"):
                                    dd = single_def(parent, a[1][0])
                                    if dd and dd[0] == "assign" and dd[3][0] == "agg" and dd[3][2] == body.path:
                                        ty = body.local_ty(2)
                                        if "std::vec::Vec<std::string::String>" in ty or ty.startswith("(std::vec::Vec<std::string::String>"):
                                            return ("collector", "fold accumulator (names generated so far)", [(parent, c)])
                return ("closure-param", "argument %d of %s" % (root, short(body.path)), [])
            return from_callers(facts, cg, body, root, depth, seen)
        if d and d[0] == "assign" and d[3][0] == "agg" and d[3][1] in ("array", "tuple") and not d[3][4]:
            return ("empty", "empty literal", [])
        break
    return ("unknown", str(rp), [])


def from_parent(facts, cg, body, upvar, depth, seen):
    parent = facts.body_by_path_opt(body.parent)
    if parent is None or depth <= 0:
        return ("unknown", "upvar %s" % upvar, [])
    name = upvar.replace("_ref__", "")
    ls = parent.locals_named(name)
    if not ls:
        # captured from a grand parent (nested closures): upvar of the parent
        if parent.kind == "Closure":
            return from_parent(facts, cg, parent, upvar, depth - 1, seen)
        return ("unknown", "upvar %s" % upvar, [])
    return origin(facts, cg, parent, ["c", [ls[0]]], depth - 1, seen)


def from_callers(facts, cg, body, param, depth, seen):
    if depth <= 0 or body.path in seen:
        return ("unknown", "recursion/depth", [])
    seen = seen | {body.path}
    sites = cg.callers_of(body.path, crates=[PA])
    if not sites:
        return ("unknown", "no callers of %s" % short(body.path), [])
    results = []
    for cb, c in sites:
        if cb.root_fn(facts).path in seen and cb.root_fn(facts).path != body.path:
            continue    # (mutual) recursion: this call site only hands the value of an outer activation on
        if cb.root_fn(facts).path == body.path or cb.path == body.path:
            # recursive call passing its own parameter on
            a = c.args[param - 1] if param - 1 < len(c.args) else None
            rp = raw_operand_place(cb, a) if a and a[0] in ("c", "m") else None
            if rp and rp[0] == param:
                continue
        if param - 1 >= len(c.args):
            results.append(("unknown", "arity", []))
            continue
        results.append(origin(facts, cg, cb, c.args[param - 1], depth - 1, seen))
    if not results:
        return ("recursive-only", "only recursive callers", [])
    results = [r for r in results if r[0] != "recursive-only"] or results
    bad = [r for r in results if r[0] != "collector"]
    if bad:
        return bad[0]
    ev = [e for r in results for e in r[2]]
    return ("collector", " / ".join(sorted({r[1] for r in results})), ev)


def freshness(facts, body, call):
    """the collector call `call` in `body` must be inside every loop of `body` that contains a consumer of its result"""
    der = forward_derived(body, [call.dest[0]])
    loops = cfg.natural_loops(body)
    for c in body.calls():
        if c.bb == call.bb:
            continue
        if any(a[0] in ("c", "m") and a[1][0] in der for a in c.args) and not (c.names() & ITER_HOPS):
            for h, blocks, backs in loops:
                if c.bb in blocks and call.bb not in blocks:
                    return False, c
    return True, None


def rn1(ctx, facts, cg, rule, modules, floor):
    n = 0
    for b in facts.in_crate(PA):
        root = b.root_fn(facts)
        if not any(root.module == m or root.module.startswith(m + "::") for m in modules):
            continue
        for c in b.calls():
            if c.path != GEN:
                continue
            n += 1
            kind, detail, ev = origin(facts, cg, b, c.args[0])
            key = "%s|exclusions" % fn_key(b, facts)
            ok = kind == "collector"
            ctx.check(ok, rule, key,
                      "exclusions of generate_name = %s" % detail,
                      "generate_name is called with exclusions of origin %s (%s): the generated name is not checked against "
                      "all names of the structure it is added to and may coincide with an existing one" % (kind, detail),
                      where(b, c.line))
            for eb, ec in ev:
                if ec.names() & set(COLLECTORS):
                    fresh, cons = freshness(facts, eb, ec)
                    ctx.check(fresh, rule, "%s|exclusions-fresh" % fn_key(eb, facts),
                              "the name collector is evaluated in the same loop iteration that uses it",
                              "the name collector is evaluated outside the transformation loop that consumes it (%s): names "
                              "generated in earlier iterations are not excluded" % (short(cons.path) if cons else ""),
                              where(eb, ec.line))
    ctx.require_floor(rule, "generate_name_sites", n, floor)
    return n


def rn2(ctx, facts, rule, modules, floor):
    """synthesised names (suffix literals) flow only into generate_name's preferred_name"""
    n = 0
    for b in facts.in_crate(PA):
        root = b.root_fn(facts)
        if not any(root.module == m or root.module.startswith(m + "::") for m in modules):
            continue
        seeds = []
        for c in b.calls():
            if (c.path or "").endswith("Add::add"):
                for a in c.args:
                    t = operand_term(b, a)
                    if t[0] == "const" and isinstance(t[2], str) and t[2] in SUFFIXES:
                        seeds.append((c.dest[0], t[2], c.line))
        for bi, si, p, rv, line, mac in b.assigns():
            if rv[0] == "use" and rv[1][0] == "k" and isinstance(rv[1][2], str) and rv[1][1].startswith("&[u8;") \
                    and any(s in rv[1][2] for s in SUFFIXES) and "format" in mac:
                # format!("{non_terminal}Opt"): the String produced by this expansion
                for c in b.calls():
                    if c.line == line and (c.path or "") in ("std::fmt::format", "std::hint::must_use"):
                        seeds.append((c.dest[0], [s for s in SUFFIXES if s in rv[1][2]][0], line))
        for local, suffix, line in seeds:
            n += 1
            der = forward_derived(b, [local], through_calls=lambda c: bool(
                c.names() & {"std::clone::Clone::clone", "std::hint::must_use", "std::fmt::format", "std::convert::Into::into"}))
            sinks = []
            for c in b.calls():
                if any(a[0] in ("c", "m") and a[1][0] in der for a in c.args):
                    nm = (c.path or "").split("::")[-1]
                    if c.path == GEN or nm in ("clone", "must_use", "format", "into", "drop", "drop_in_place"):
                        continue
                    sinks.append(short(c.path or "?"))
            uses_gen = any(c.path == GEN and len(c.args) > 1 and c.args[1][0] in ("c", "m") and c.args[1][1][0] in der
                           for c in b.calls())
            ctx.check(uses_gen and not sinks, rule, "%s|synthesised-%s-name" % (fn_key(b, facts), suffix),
                      "the synthesised `..%s` name is only a preferred name for generate_name" % suffix,
                      "a synthesised `..%s` name is used without passing generate_name (other consumers: %s)"
                      % (suffix, sinks), where(b, line))
    ctx.require_floor(rule, "synthesised_names", n, floor)


# ----------------------------------------------------------------------------------------------------------------- RN.0
SCAN_CALLS = {"any", "all", "contains", "find", "position"}
ADAPTORS = {"skip", "take", "filter", "skip_while", "take_while", "step_by", "filter_map", "peekable", "rev", "chain", "zip"}


def _closure_captures(body, call, local):
    """the closure argument of `call` captures a reference to `local`"""
    for a in call.args[1:]:
        rp = raw_operand_place(body, a)
        if not rp:
            continue
        d = single_def(body, rp[0])
        if d and d[0] == "assign" and d[3][0] == "agg" and d[3][1] == "closure":
            for o in d[3][4]:
                r2 = raw_operand_place(body, o)
                if r2 and r2[0] == local:
                    return True
    return False


def _is_borrow_for(body, use, call):
    """the use (block, stmt) is the `&mut exclusions` borrow that feeds `call` itself"""
    bi, si = use
    if si is None:
        return bi == call.bb
    st = body.stmts(bi)[si]
    if st[0] == "a" and st[2][0] in ("ref", "ptr") and len(st[1]) == 1:
        rp = raw_operand_place(body, call.args[0]) if call.args else None
        return bi == call.bb and rp is not None and rp[0] == 1
    return False


def rn0(ctx, facts, rule):
    """RN.0 post-condition of generate_name itself: a name is returned only after a *complete* scan of the exclusions found no
    equal name, and that scan happened after the candidate's last modification.  For generate_name and its helper gen_name:
    every local X that is moved into the return place must satisfy
      (a) the returning block is reached only through the `not found` edge of a test T = exclusions.<scan>(|n| n == X) whose
          iterator is a fresh, unadapted copy of the `exclusions` parameter (clone of parameter 1, no skip/take/filter...),
      (b) every assignment of X reaches the return only through T (no path from a modification of the candidate to the
          return that bypasses the scan).
    A single forward pass over the exclusions (compare-and-bump inside `for n in exclusions`) violates (b): a name bumped at
    position i is never compared with the names before i."""
    n = 0
    for path in (GEN, GEN + "::gen_name"):
        try:
            b = facts.body(path)
        except AnchorMissing:
            if path == GEN:
                raise
            continue
        for d in b.defs(0):
            if d[0] == "call":
                c = d[3]
                ok = c.path == GEN + "::gen_name" or c.path == GEN
                ctx.check(ok, rule, "%s|returns-helper-result" % short(path),
                          "the result of %s is returned unchanged" % short(c.path or "?"),
                          "%s returns the result of %s, which is not a checked name generator" % (short(path), short(c.path or "?")),
                          where(b, c.line))
                n += 1
                continue
            if d[0] != "assign" or d[3][0] != "use":
                ctx.bad(rule, "%s|return-value-shape" % short(path), "the return value of %s is computed in place (%s); cannot relate it "
                        "to a scanned candidate" % (short(path), d[3][0]), where(b, b.line_of_block(d[1])))
                continue
            rp = raw_operand_place(b, d[3][1])
            X = rp[0] if rp else None
            r = d[1]
            tests = []
            for t in range(len(b.blocks)):
                term = b.term(t)
                if term[0] != "switch":
                    continue
                tt = operand_term(b, term[1])
                neg = False
                while tt[0] == "un" and tt[1] == "Not":
                    tt, neg = tt[2], not neg
                if tt[0] != "call":
                    continue
                c = tt[1]
                nm = (c.path or "").split("::")[-1]
                if nm not in SCAN_CALLS or not _closure_captures(b, c, X):
                    continue
                # fresh, unadapted iterator over parameter 1
                it = operand_term(b, c.args[0]) if c.args else ("unknown",)
                adapted = []
                chain_names = []
                hops = 0
                while it[0] == "call" and hops < 8:
                    cn = (it[1].path or "").split("::")[-1]
                    chain_names.append(cn)
                    if cn in ADAPTORS:
                        adapted.append(cn)
                    if cn != "clone" and cn not in ADAPTORS and cn not in ("iter", "into_iter", "deref", "by_ref"):
                        adapted.append("?" + cn)
                    it = operand_term(b, it[1].args[0]) if it[1].args else ("unknown",)
                    hops += 1
                whole = it[0] == "path" and it[1] == 1 and not adapted
                # a fresh copy: the scan consumes its iterator; scanning the parameter itself is only complete if this is the
                # parameter's single use and the scan is not repeated (no loop)
                if whole and "clone" not in chain_names:
                    in_loop = cfg.loop_containing(b, t) is not None or cfg.loop_containing(b, c.bb) is not None
                    other_uses = [u for u in uses_of_local(b, 1) if u[0] != c.bb]
                    reused = in_loop or any(u[0] in cfg.reachable_from(b, c.bb) or c.bb in cfg.reachable_from(b, u[0])
                                            for u in other_uses if not _is_borrow_for(b, u, c))
                    if reused:
                        whole = False
                        adapted = ["consumed: the exclusions iterator itself is advanced by the scan and used again"]
                # `any`-like: found => true; the return must be on the not-found edge
                notfound = {0} if not neg else {None}
                if nm == "all":
                    notfound = {None} if not neg else {0}
                tests.append((t, c, whole, notfound, adapted))
            okT = None
            why = "no scan of the exclusions compares with the returned candidate"
            for t, c, whole, notfound, adapted in tests:
                if not whole:
                    why = "the scan at line %d runs on an adapted / partially consumed iterator (%s)" % (c.line, adapted or "not parameter 1")
                    continue
                from .common import only_via_edge
                if not only_via_edge(b, t, notfound, r):
                    why = "the return is not confined to the `not found` edge of the scan at line %d" % c.line
                    continue
                # (b) every modification of X reaches r only through t
                bypass = None
                for dd in b.defs(X):
                    start = None
                    if dd[0] in ("call", "partcall"):
                        tc = b.term(dd[1])
                        start = [tc[4]] if len(tc) > 4 and isinstance(tc[4], int) else []
                    elif dd[0] == "assign":
                        start = [dd[1]] if dd[1] != t else []
                    for s in start or []:
                        if s == t:
                            continue
                        if r in cfg.reachable_from(b, s, avoid_blocks=[t]):
                            bypass = b.line_of_block(dd[1])
                if bypass is not None:
                    why = "the candidate is modified at line %d and can reach the return without being scanned again" % bypass
                    continue
                okT = c
                break
            n += 1
            ctx.check(okT is not None, rule, "%s|returned-name-was-scanned" % short(path),
                      "`%s` is returned only behind a complete scan of the exclusions made after its last modification"
                      % (b.local_name(X) or "_%s" % X),
                      "%s returns `%s` although %s: the generated name can equal an excluded name (duplicate identifiers / helper "
                      "non-terminals that clash with user names)" % (short(path), b.local_name(X) or "_%s" % X, why),
                      where(b, b.line_of_block(r)))
    ctx.require_floor(rule, "generate_name_return_paths", n, 3)


def rn4(ctx, facts, rule, modules):
    """RN.4 (added after seed C10-b; expected count 0) helper non-terminals are never *recognised* by their name: the suffix
    literals "Opt" "List" "Group" "Suffix" occur in the transformations only where a preferred name is assembled (RN.2), never as
    the pattern of ends_with / starts_with / contains / strip_suffix / trim_end_matches / find / a regex.  A user may name a
    non-terminal `CallSuffix` or `ItemList`; a transformation that treats such a name as 'generated, already handled' skips
    work that the property demands (e.g. left factoring of `CallSuffix`)."""
    RECOGNISERS = {"ends_with", "starts_with", "contains", "strip_suffix", "strip_prefix", "trim_end_matches", "trim_start_matches",
                   "find", "rfind", "matches", "is_match", "eq", "ne", "split", "rsplit"}
    hits = []
    nb = 0
    for b in facts.in_crate(PA):
        root = b.root_fn(facts)
        if not any(root.module == m or root.module.startswith(m + "::") for m in modules):
            continue
        nb += 1
        for c in b.calls():
            nm = (c.path or "").split("::")[-1]
            if nm not in RECOGNISERS:
                continue
            for a in c.args:
                t = operand_term(b, a)
                if t[0] == "const" and isinstance(t[2], str) and t[2] in SUFFIXES:
                    hits.append((b, c, t[2]))
    for b, c, suf in hits:
        ctx.bad(rule, "%s|recognises-%s-names" % (fn_key(b, facts), suf),
                "%s tests a non-terminal name against the literal \"%s\" (%s): names are not reserved - a user-defined non-terminal "
                "with such a name is taken for a generated helper" % (short(b.path), suf, short(c.path or "?")), where(b, c.line))
    ctx.check(not hits, rule, "no-name-based-recognition-of-helpers", "no helper-suffix literal is used as a name pattern in %d bodies" % nb,
              "%d use(s) of a helper-suffix literal as a name pattern" % len(hits), nontrivial=False)
    ctx.require_floor(rule, "bodies_scanned", nb, 10)
