"""C08 Runtime production prediction is exact, also on erroneous input.

R08.1 loop_progress: in LookaheadDFA::eval no path goes round the look-ahead loop (from the
      successful read of a look-ahead token back to the loop header) without assigning the
      automaton state from the to-state (field 2) of a transition.
R08.7 a transition is followed only behind a test that *its own* from-state equals the current state (on every path).
R08.8 = all C07 rules re-evaluated (the automaton that eval runs on: merge keys of minimisation, order contract, k).
R08.3 every Ok(..) returned by eval derives from prod_num / last_prod_num and lies on the
      `> INVALID_PROD` (resp. `Some(last_accepting_state)`) edge; there is no default production.
"""
from .. import cfg
from ..dataflow import local_term, operand_term, term_str, raw_operand_place, raw_place
from ..facts import AnchorMissing

CRATES = ["parol.lib", "parol_runtime.lib"]

META = {
    "explanation": "Decides the structural clause of C08: LookaheadDFA::eval can never read look-ahead token "
                   "i+1 in the automaton state reached before token i (i.e. skip an unmatched token), and "
                   "every predicted production is the production of a transition actually taken (no default). "
                   "Bool-flag sensitive path search on the MIR CFG of eval; not decided: that the automaton "
                   "tables themselves are right (C07).",
}

EVAL = "parol_runtime::parser::lookahead_dfa::LookaheadDFA::eval"
TRANS = "parol_runtime::parser::lookahead_dfa::Trans"
LA_CALL = "parol_runtime::lexer::token_stream::TokenStream::lookahead_token_type"
INVALID_PROD = "parol_runtime::parser::INVALID_PROD"


def trans_field_of(place):
    """index of the Trans field read by a place, or None"""
    for e in place[1:]:
        if isinstance(e, list) and e[0] == "f" and e[3] == TRANS:
            return e[1]
    return None


def find_state_local(body):
    """the local compared with field 0 of a Trans"""
    cands = set()
    for bi, si, p, rv, line, mac in body.assigns():
        if rv[0] == "bin" and rv[1] in ("Eq", "Ne"):
            ta = operand_term(body, rv[2])
            tb = operand_term(body, rv[3])
            for x, y in ((ta, tb), (tb, ta)):
                if x[0] == "path" and x[2] and x[2][-1] == "0" and _is_trans_path(body, rv, x):
                    if y[0] in ("path", "local") and (y[0] == "local" or not y[2]):
                        cands.add(y[1])
    return cands


def _is_trans_path(body, rv, term):
    # confirm through the raw places: one operand chain reads field 0 of Trans
    for op in (rv[2], rv[3]):
        rp = raw_operand_place(body, op)
        if rp is not None and trans_field_of(rp) == 0:
            return True
    return False


def check(ctx):
    facts = ctx.facts()
    body = facts.body(EVAL)
    where = "%s:%d" % (body.file, body.lo)
    ctx.count("functions_analysed")
    ctx.count("blocks", len(body.blocks))

    la_calls = body.calls_to(LA_CALL)
    if len(la_calls) != 1:
        raise AnchorMissing("expected exactly one call of TokenStream::lookahead_token_type in eval, found %d"
                            % len(la_calls))
    la = la_calls[0]
    loops = [l for l in cfg.natural_loops(body) if la.bb in l[1]]
    if not loops:
        raise AnchorMissing("look-ahead read in eval is not inside a loop")
    loops.sort(key=lambda l: len(l[1]))
    header, lblocks, backs = loops[0]

    states = find_state_local(body)
    if len(states) != 1:
        # fall back to the local that is assigned a transition's to-state (field 2)
        states = {p[0] for bi, si, p, rv, line, mac in body.assigns()
                  if len(p) == 1 and rv[0] == "use" and rv[1][0] in ("c", "m")
                  and trans_field_of(raw_place(body, rv[1][1])) == 2 and body.local_name(p[0])
                  and any(x[0] == "assign" and x[3][0] == "use" and x[3][1][0] == "k" for x in body.defs(p[0]))}
    if len(states) != 1:
        raise AnchorMissing("cannot identify the automaton-state local of eval (candidates: %s)" % sorted(states))
    state = states.pop()

    # ---------------------------------------------------------------------------------- R08.7 (added after seed C08-b)
    # a transition is followed only if *its own* from-state equals the current state: the assignment state := t.2 lies behind a
    # test t.0 == state on every path, where t is the same transition
    from .common import guards_on_all_paths
    for bi, si, p, rv, line, mac in body.assigns():
        if p == [state] and rv[0] == "use" and rv[1][0] in ("c", "m") and trans_field_of(raw_place(body, rv[1][1])) == 2:
            tplace = raw_place(body, rv[1][1])
            troot = (tplace[0], [e for e in tplace[1:] if not (isinstance(e, list) and e[0] == "f" and e[3] == TRANS)])
            okg = False
            for a, k, truth in guards_on_all_paths(body, bi):
                if not k or k[0] != "bin" or k[1] not in ("Eq", "Ne"):
                    continue
                t = body.term(a)
                # operands of the comparison, as raw places
                d = [x for x in body.defs(t[1][1][0]) if x[0] == "assign"] if t[1][0] in ("c", "m") else []
                if not d or d[0][3][0] != "bin":
                    continue
                ops = [d[0][3][2], d[0][3][3]]
                rps = [raw_operand_place(body, o) for o in ops]
                hit_from = [rp for rp in rps if rp is not None and trans_field_of(rp) == 0 and
                            (rp[0], [e for e in rp[1:] if not (isinstance(e, list) and e[0] == "f" and e[3] == TRANS)]) == troot]
                hit_state = [rp for rp in rps if rp is not None and rp[0] == state and len(rp) == 1]
                eq_holds = truth if k[1] == "Eq" else not truth
                if hit_from and hit_state and eq_holds:
                    okg = True
            ctx.check(okg, "R08.7", "eval|transition-belongs-to-current-state",
                      "state := t.2 is taken only behind t.0 == state for the same transition t",
                      "eval follows a transition (state := t.2) without a test on every path that this transition's from-state "
                      "equals the current state: a transition of another state can be taken, a production is predicted for "
                      "tokens none of its look-ahead strings begins with", "%s:%d" % (body.file, line))

    # blocks assigning state := (some Trans).2
    trans_blocks = set()
    other_state_writes = []
    for bi, si, p, rv, line, mac in body.assigns():
        if p == [state]:
            if rv[0] == "use" and rv[1][0] in ("c", "m") and trans_field_of(raw_place(body, rv[1][1])) == 2:
                trans_blocks.add(bi)
            elif rv[0] == "use" and rv[1][0] == "k":
                pass  # initialisation with a constant (start state)
            else:
                other_state_writes.append((bi, line))
    if not trans_blocks:
        raise AnchorMissing("no assignment `state = transition.2` found in eval")
    ctx.check(not other_state_writes, "R08.1", "eval|state-writes",
              "state is only written from a constant (start state) and from Trans field 2 (to-state)",
              "state is also written from something that is not a transition's to-state at lines %s"
              % [l for _, l in other_state_writes], where)

    # success edge of the look-ahead read: the call's target; `?` error exits leave the loop anyway
    start = la.target
    back_edges = {(b, header) for b in backs}

    path = cfg.find_path(body, [start],
                         goal_edge_pred=lambda a, b: (a, b) in back_edges,
                         forbidden_block_pred=lambda b: b in trans_blocks or b not in lblocks)
    ctx.count("paths_searched")
    if path is None:
        ctx.ok("R08.1", "eval|loop-progress",
               "every feasible path from the look-ahead read (bb%d) to a back edge of the look-ahead loop "
               "(header bb%d, %d blocks) passes `%s = transition.2` (blocks %s)"
               % (la.bb, header, len(lblocks), body.local_name(state) or state, sorted(trans_blocks)),
               "%s:%d" % (body.file, la.line))
    else:
        lines = []
        for b in path:
            l = body.line_of_block(b)
            if l > 1 and (not lines or lines[-1] != l):
                lines.append(l)
        ctx.bad("R08.1", "parol_runtime|parser::lookahead_dfa|LookaheadDFA::eval|back-edge-without-transition",
                "a path goes round the look-ahead loop without taking a transition: the next look-ahead token "
                "is then evaluated in the old state, i.e. an unmatched token is skipped over",
                "%s:%d" % (body.file, la.line), {"blocks": path, "lines": lines})

    # ------------------------------------------------------------------ R08.3
    dom = cfg.Dom(body)
    ok_sites = []
    for bi, si, p, rv, line, mac in body.assigns():
        if p == [0] and rv[0] == "agg" and rv[2] == "std::result::Result" and rv[3] == "Ok":
            ok_sites.append((bi, rv, line))
    if not ok_sites:
        raise AnchorMissing("eval has no Ok(..) return")
    prod_locals = set()
    for bi, si, p, rv, line, mac in body.assigns():
        if len(p) == 1 and rv[0] == "use" and rv[1][0] in ("c", "m") and body.local_name(p[0]) \
                and trans_field_of(raw_place(body, rv[1][1])) == 3:
            prod_locals.add(p[0])
    # locals copied from prod locals (last_prod_num = prod_num)
    changed = True
    while changed:
        changed = False
        for bi, si, p, rv, line, mac in body.assigns():
            if len(p) == 1 and p[0] not in prod_locals and rv[0] == "use" and rv[1][0] in ("c", "m") \
                    and len(raw_place(body, rv[1][1])) == 1 and raw_place(body, rv[1][1])[0] in prod_locals \
                    and body.local_name(p[0]):
                prod_locals.add(p[0])
                changed = True
    for bi, rv, line in ok_sites:
        t = operand_term(body, rv[4][0])
        src = None
        if t[0] in ("path", "local") and t[1] in prod_locals:
            src = t[1]
        key = "eval|ok-derives-from-production|%s" % (body.local_name(src) if src is not None else term_str(body, t))
        if src is None:
            ctx.bad("R08.3", key, "eval returns Ok(%s) which is not the production of a taken transition "
                    "(prod_num/last_prod_num)" % term_str(body, t), "%s:%d" % (body.file, line))
            continue
        # must be dominated by a branch `src > INVALID_PROD` (true edge) or by a Some-edge of an Option that is
        # only set together with such a production
        guarded = False
        for d in dom.dominators(bi):
            tm = body.term(d)
            if tm[0] != "switch":
                continue
            dt = operand_term(body, tm[1])
            if dt[0] == "bin" and dt[1] == "Gt":
                a, b2 = dt[2], dt[3]
                if a[0] in ("path", "local") and a[1] == src and b2[0] == "const" and b2[3] == INVALID_PROD:
                    # true edge = the non-zero/otherwise edge
                    false_t = [tg for v, tg in body.switch_edges(d) if v == 0]
                    if false_t and not _reach_avoiding(body, false_t[0], bi, d):
                        guarded = True
            if dt[0] == "disc":
                # `if let Some(last_state) = last_accepting_state`
                guarded = guarded or _option_guard(body, d, bi, dt, prod_locals, src, dom)
        ctx.check(guarded, "R08.3", key,
                  "Ok(%s) is only reachable on the `> INVALID_PROD` / accepting-state edge" % body.local_name(src),
                  "Ok(%s) is reachable without the `> INVALID_PROD` test (default production)" % body.local_name(src),
                  "%s:%d" % (body.file, line))
    ctx.require_floor("R08.3", "ok_sites", len(ok_sites), 2)
    scan_complete(ctx, body, "R08.4")

    # ------------------------------------------------------------------ R08.5 look-ahead position = loop variable
    nx = [c for c in body.calls() if "std::iter::Iterator::next" in c.names() and c.bb in lblocks
          and "Range<usize>" in (c.self_ty or "") and not any(c.bb in l[1] for l in cfg.natural_loops(body)
                                                              if l[1] < lblocks and la.bb not in l[1])]
    from ..dataflow import forward_derived
    ok5 = False
    if nx:
        der = forward_derived(body, [nx[0].dest[0]], through_calls=lambda c: False)
        a = la.args[1]
        ok5 = a[0] in ("c", "m") and a[1][0] in der
    ctx.check(ok5, "R08.5", "eval|lookahead-index-is-loop-variable",
              "lookahead_token_type(i) reads the i-th look-ahead token of the look-ahead loop",
              "the look-ahead loop does not read token i in iteration i (argument of lookahead_token_type is not the loop "
              "variable): the automaton would be fed the wrong tokens", "%s:%d" % (body.file, la.line))

    # ------------------------------------------------------------------ R08.6 early exit of the scan only on Greater
    cmps = [c for c in body.calls() if c.path == "std::cmp::Ord::cmp" and c.bb in lblocks]
    ok6 = False
    why6 = "no comparison of the transition's terminal with the token"
    if len(cmps) == 1:
        c = cmps[0]
        a0 = raw_operand_place(body, c.args[0])
        a1 = raw_operand_place(body, c.args[1])
        trans_first = a0 is not None and trans_field_of(a0) == 1
        trans_second = a1 is not None and trans_field_of(a1) == 1
        sw = None
        for d in range(len(body.blocks)):
            t = body.term(d)
            if t[0] == "switch":
                tt = operand_term(body, t[1])
                if tt[0] == "disc" and tt[1][0] == "call" and tt[1][1].bb == c.bb:
                    sw = d
        if sw is not None and (trans_first or trans_second):
            inner = [l for l in cfg.natural_loops(body) if sw in l[1]]
            inner.sort(key=lambda l: len(l[1]))
            iblocks = inner[0][1] if inner else set()
            # Ordering: Less = -1 (255 as u8 / large), Equal = 0, Greater = 1
            edges = body.switch_edges(sw)
            def leaves_without_transition(tgt):
                reach = cfg.reachable_from(body, tgt, avoid_blocks=trans_blocks)
                # reaches a block outside the inner loop without passing the back edge of the inner loop
                return any(b not in iblocks for b in reach)
            exit_vals = [v for v, tgt in edges if v is not None and v != 0 and tgt not in trans_blocks
                         and not any(hb == inner[0][0] for hb in [tgt]) and leaves_without_transition(tgt)
                         and inner and inner[0][0] not in cfg.reachable_from(body, tgt, avoid_blocks=list(set(range(len(body.blocks))) - iblocks))]
            want = 1 if trans_first else None
            if trans_first:
                ok6 = exit_vals == [1]
                why6 = "the scan is left early for Ordering value(s) %s of transition.cmp(token); expected only Greater (1)" % exit_vals
            else:
                less = [v for v in exit_vals if v not in (0, 1)]
                ok6 = len(exit_vals) == 1 and len(less) == 1
                why6 = "the scan is left early for Ordering value(s) %s of token.cmp(transition); expected only Less" % exit_vals
    ctx.check(ok6, "R08.6", "eval|early-exit-only-when-greater",
              "the scan over the sorted transitions stops early only when the transition's terminal is greater than the token",
              "early exit of the transition scan is not tied to `Greater` (%s): with the table sorted ascending by terminal a "
              "matching transition further down would be missed" % why6, "%s:%d" % (body.file, la.line))
    # ---------------------------------------------------------------------------------- R08.8 = C07's rules (added after seed C08-c)
    # eval is exact for the automaton it is given; the automaton it is given is the minimised one of the generator - its encoding
    # order, merge keys, k and state renaming decide whether erroneous input can reach an accepting state
    from . import c07
    c07.check(ctx)


def scan_complete(ctx, body, rule):
    """R08.4: the search for a transition examines the whole transition table for every look-ahead token.
    The compiled automaton is sorted by (from_state, terminal) but minimisation merges states, so transitions may
    lead to *lower* numbered states; a scan that resumes behind the last taken transition misses them."""
    from ..dataflow import single_def
    from .common import recv_fields
    idx_blocks = set()
    for bi, si, p, rv, line, mac in body.assigns():
        pl = rv[-1] if rv[0] in ("ref", "cfd") else (rv[1][1] if rv[0] == "use" and rv[1][0] in ("c", "m") else None)
        if pl is None:
            continue
        rp = raw_place(body, pl)
        names = [e[2] for e in rp[1:] if isinstance(e, list) and e[0] == "f"]
        if "transitions" in names and any(isinstance(e, list) and e[0] == "i" for e in rp[1:]):
            idx_blocks.add(bi)
    if not idx_blocks:
        # iterator style: transitions.iter()
        its = [c for c in body.calls() if (c.path or "").endswith("slice::iter") and "Trans" in (c.self_ty or "")]
        ctx.check(bool(its), rule, "eval|scan-complete", "the transition table is traversed with slice::iter()",
                  "cannot find how eval traverses the transition table", "%s:%d" % (body.file, body.lo))
        return
    loops = [l for l in cfg.natural_loops(body) if idx_blocks & l[1]]
    loops.sort(key=lambda l: len(l[1]))
    inner = loops[0]
    nexts = [c for c in body.calls() if "std::iter::Iterator::next" in c.names() and c.bb in inner[1]
             and "Range<usize>" in (c.self_ty or "")]
    ok = False
    why = "no Range iteration found"
    line = body.lo
    if nexts:
        # the iterator local <- into_iter(Range{start,end})
        rp = raw_operand_place(body, nexts[0].args[0])
        d = single_def(body, rp[0]) if rp else None
        hops = 0
        while d and hops < 4:
            hops += 1
            if d[0] == "call" and "std::iter::IntoIterator::into_iter" in d[3].names():
                rp = raw_operand_place(body, d[3].args[0])
                d = single_def(body, rp[0]) if rp else None
                continue
            break
        if d and d[0] == "assign" and d[3][0] == "agg" and d[3][2] == "std::ops::Range":
            start, end = d[3][4][0], d[3][4][1]
            line = body.stmts(d[1])[d[2]][3]
            st = operand_term(body, start)
            en = operand_term(body, end)
            s_ok = st[0] == "const" and st[2] == 0
            e_ok = en[0] == "call" and (en[1].path or "").endswith("::len") and "transitions" in recv_fields(body, en[1])
            ok = s_ok and e_ok
            why = "range is %s..%s" % (term_str(body, st), term_str(body, en))
    ctx.check(ok, rule, "eval|scan-complete",
              "for every look-ahead token the scan covers 0..transitions.len()",
              "the transition scan of LookaheadDFA::eval does not cover the whole table for every look-ahead token (%s): "
              "minimised automata contain transitions to lower numbered states, their target's transitions would be "
              "missed and a valid look-ahead string is rejected" % why, "%s:%d" % (body.file, line))


def _reach_avoiding(body, start, goal, avoid):
    return goal in cfg.reachable_from(body, start, avoid_blocks=[avoid])


def _option_guard(body, d, bi, dt, prod_locals, src, dom):
    """switch on the discriminant of an Option local O (Some edge leads to bi) where every `O = Some(..)`
    assignment is dominated by a `prod > INVALID_PROD` true edge."""
    p = dt[1]
    if p[0] not in ("path", "local"):
        return False
    opt = p[1]
    if not body.local_ty(opt).startswith("std::option::Option<"):
        return False
    # Some edge must be the only way to bi
    some_t = [tg for v, tg in body.switch_edges(d) if v == 1]
    none_t = [tg for v, tg in body.switch_edges(d) if v != 1 and tg not in some_t]
    if not some_t or any(_reach_avoiding(body, t, bi, d) for t in none_t):
        return False
    # every Some-assignment is guarded by prod > INVALID_PROD
    for bj, si, pl, rv, line, mac in body.assigns():
        if pl == [opt] and rv[0] == "agg" and rv[3] == "Some":
            g = False
            for dd in dom.dominators(bj):
                tm = body.term(dd)
                if tm[0] != "switch":
                    continue
                t2 = operand_term(body, tm[1])
                if t2[0] == "bin" and t2[1] == "Gt" and t2[3][0] == "const" and t2[3][3] == INVALID_PROD \
                        and t2[2][0] in ("path", "local") and t2[2][1] in prod_locals | {_prod0_local(body)}:
                    false_t = [tg for v, tg in body.switch_edges(dd) if v == 0]
                    if false_t and not _reach_avoiding(body, false_t[0], bj, dd):
                        g = True
            if not g:
                return False
    return True


def _prod0_local(body):
    # prod_num is initialised from self.prod0
    for bi, si, p, rv, line, mac in body.assigns():
        if len(p) == 1 and rv[0] == "use" and rv[1][0] in ("c", "m"):
            pl = rv[1][1]
            if pl[-1][0] == "f" and pl[-1][2] == "prod0" if len(pl) > 1 and isinstance(pl[-1], list) else False:
                return p[0]
    return -1
