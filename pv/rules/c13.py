"""C13 The scanner tokenizes by the documented rules - thin: what this repository contributes to scanning.

Longest match / priority / look-ahead / the mode stack are implemented in the external crate scnr2.
R13.1 the parser cannot influence scanning: inside parol_runtime, scnr2's matcher is advanced only from
      <TokenIter as Iterator>::next (FindMatchesWithPosition::next), it is created only in TokenStream::new*, and the
      only other scnr2 calls are the read-only current_mode / mode_name.  Hence the token sequence is a function of
      the text alone - independent of look-ahead size and of when the parser consumes.
R13.2 TokenStream::read_tokens adds every token it reads to the buffer (shared with C17 R17.2 add-unconditional) and
      TokenIter::next turns every match into a token (no match is dropped except when position data is missing).
R13.3 declaration order is the scanner's priority order: built-in tokens are pushed in the order NEW_LINE < WHITESPACE <
      LINE_COMMENT < BLOCK_COMMENT, user terminals come from get_ordered_terminals().iter().enumerate() without
      reordering adaptors, ScannerBuildInfo's Display writes the mappings in vector order.
R13.5 each pattern is expanded with its own kind: in generate_build_information every TerminalKind::expand call takes
      kind and text from the same object - the terminal's (k, t) of the ordered-terminal tuple, or the look-ahead
      expression's own (kind, pattern) fields; the scanner state filter reads the tuple's state list (field 3).
R13.6 no binary search on lists whose order is the order of encounter (hazard rule, expected count 0).
R13.4 declared scanner transitions reach the generated scanner unfiltered: generate_build_information returns a plain
      clone of self.transitions, and the Display impl writes every transition.
"""
from .. import cfg
from ..callgraph import CallGraph
from ..dataflow import operand_term, raw_operand_place, single_def, forward_derived
from ..facts import AnchorMissing
from .common import (RT, PA, where, short, fn_key, ok_blocks, control_deps, control_dependence_no_errors,
                     transitive_control_deps, recv_fields)

CRATES = ["parol_runtime.lib", "parol.lib"]

META = {
    "explanation": "Decides what parol itself contributes to C13: the parser has no handle on the scanner state, tokens "
                   "are neither dropped nor reordered between scnr2 and the token buffer, the generator emits terminals "
                   "in declaration order and all declared transitions. scnr2's longest-match / priority / look-ahead / "
                   "mode-stack semantics are an assumption.",
    "assumptions": ["scnr2 implements longest match, first-declared priority, look-ahead and enter/push/pop as documented"],
}

GBI = "parol::generators::scanner_config::ScannerConfig::generate_build_information"
REORDER = {"rev", "sort", "sort_by", "sort_by_key", "sort_unstable", "sort_unstable_by", "sort_unstable_by_key",
           "filter", "filter_map", "skip", "take", "step_by", "dedup", "retain", "skip_while", "take_while", "reverse",
           "dedup_by_key", "swap", "rotate_left", "rotate_right"}
ALLOWED_SCNR2 = {
    "scnr2::FindMatchesWithPosition::mode_name": {"parol_runtime::lexer::token_iter::TokenIter::scanner_mode_name"},
    "scnr2::FindMatchesWithPosition::current_mode": {"parol_runtime::lexer::token_iter::TokenIter::current_mode"},
    "scnr2::ScannerImpl::find_matches_with_position": {"parol_runtime::lexer::token_stream::TokenStream::new_with_skip_tokens"},
}
NEXT_OWNER = "<parol_runtime::lexer::token_iter::TokenIter<'t, F> as std::iter::Iterator>::next"


def check(ctx):
    facts = ctx.facts()
    # ---------------------------------------------------------------- R13.1
    n = 0
    adv = 0
    for b in facts.in_crate(RT):
        for c in b.calls():
            p = c.path or ""
            st = c.self_ty or ""
            if p.startswith("scnr2::"):
                n += 1
                root = b.root_fn(facts).path
                ok = root in ALLOWED_SCNR2.get(p, set())
                ctx.check(ok, "R13.1", "%s|%s" % (fn_key(b, facts), short(p)),
                          "reviewed scnr2 call (read-only / construction)",
                          "%s calls %s: the runtime reaches into the scanner outside the reviewed places - scanning could "
                          "depend on the parser" % (short(b.path), p), where(b, c.line))
            elif st.startswith("scnr2::") and not p.startswith("std::ops::Try") and not p.startswith("std::clone"):
                n += 1
                if p == "std::iter::Iterator::next" and "FindMatchesWithPosition" in st:
                    adv += 1
                    ctx.check(b.path == NEXT_OWNER, "R13.1", "%s|advances-matcher" % fn_key(b, facts),
                              "the scnr2 matcher is advanced from <TokenIter as Iterator>::next",
                              "%s advances the scnr2 matcher: tokens could be consumed out of band" % short(b.path),
                              where(b, c.line))
                else:
                    ctx.bad("R13.1", "%s|%s-on-scnr2" % (fn_key(b, facts), short(p)),
                            "unreviewed call %s on scnr2 type %s" % (p, st[:50]), where(b, c.line))
    ctx.require_floor("R13.1", "scnr2_call_sites", n, 4)
    ctx.check(adv == 1, "R13.1", "single-advance-site", "exactly one place advances the matcher",
              "%d places advance the scnr2 matcher" % adv)
    # TokenIter::next is reached only from read_tokens
    callers = []
    for b in facts.in_crate(RT):
        for c in b.calls():
            if c.callee.get("r") == NEXT_OWNER or (c.path == "std::iter::Iterator::next" and "token_iter::TokenIter" in (c.self_ty or "")):
                callers.append((b, c))
    for b, c in callers:
        ctx.check(b.root_fn(facts).path == "parol_runtime::lexer::token_stream::TokenStream::read_tokens", "R13.1",
                  "%s|pulls-tokens" % fn_key(b, facts), "tokens are pulled from the iterator in read_tokens only",
                  "%s pulls tokens from the TokenIter directly (bypassing the buffer)" % short(b.path), where(b, c.line))
    ctx.require_floor("R13.1", "token_pull_sites", len(callers), 1)

    # ---------------------------------------------------------------- R13.2
    nx = facts.body(NEXT_OWNER)
    fm = [c for c in nx.calls() if c.path == "std::iter::Iterator::next" and "FindMatchesWithPosition" in (c.self_ty or "")]
    tf = nx.calls_to("parol_runtime::lexer::token_iter::TokenIter::token_from_match")
    ok = False
    if len(fm) == 1 and len(tf) == 1:
        der = forward_derived(nx, [fm[0].dest[0]])
        a = tf[0].args[1]
        ok = a[0] in ("c", "m") and a[1][0] in der and tf[0].dest == [0]
        deps = [k for _a, _s, k in control_deps(nx, tf[0].bb) if k is not None]
        ok = ok and all(k[0] in ("disc", "disc-call") for k in deps)
    ctx.check(ok, "R13.2", "TokenIter::next|every-match-becomes-the-result",
              "each scnr2 match is converted by token_from_match and returned (only guarded by Some/None of the match)",
              "TokenIter::next does not turn every scanner match into the returned token", where(nx))

    # ---------------------------------------------------------------- R13.3
    g = facts.body(GBI)
    dom = cfg.Dom(g)
    order = []
    for c in g.calls():
        if (c.path or "").endswith("Vec::push") and "std::string::String, u16" in (c.self_ty or ""):
            rp = raw_operand_place(g, c.args[1])
            d = single_def(g, rp[0]) if rp else None
            if d and d[0] == "assign" and d[3][0] == "agg" and d[3][1] == "tuple":
                t = operand_term(g, d[3][4][1])
                if t[0] == "const" and t[3]:
                    order.append((t[3].split("::")[-1], c.bb, t[2]))
    names = [x[0] for x in order]
    want = ["NEW_LINE", "WHITESPACE", "LINE_COMMENT", "BLOCK_COMMENT"]
    seq_ok = names == want and all(order[i][2] < order[i + 1][2] for i in range(len(order) - 1))
    # CFG order: no later push can precede an earlier one
    for i in range(len(order) - 1):
        if order[i][1] in cfg.reachable_from(g, order[i + 1][1]):
            seq_ok = False
    ctx.check(seq_ok, "R13.3", "builtin-token-order",
              "built-in tokens are pushed in the order %s with increasing indices" % want,
              "the built-in scanner tokens are not emitted in the documented priority order (found %s)" % names, where(g))
    folds = [c for c in g.calls() if (c.path or "").endswith("Iterator::fold")]
    fold_ok = False
    if len(folds) == 1:
        # receiver chain: get_ordered_terminals().iter().enumerate()
        chain = []
        t = operand_term(g, folds[0].args[0])
        hops = 0
        while t[0] == "call" and hops < 8:
            chain.append((t[1].path or "").split("::")[-1])
            t = operand_term(g, t[1].args[0]) if t[1].args else ("unknown",)
            hops += 1
        fold_ok = "get_ordered_terminals" in chain and "enumerate" in chain and not (set(chain) & REORDER)
        builtin_before = all(dom.dominates(b, folds[0].bb) or folds[0].bb in cfg.reachable_from(g, b) for _n, b, _v in order)
        fold_ok = fold_ok and builtin_before
    ctx.check(fold_ok, "R13.3", "user-terminals-in-declaration-order",
              "user terminals are appended after the built-ins from get_ordered_terminals().iter().enumerate() without "
              "reordering", "the user terminals are not appended in the order of Cfg::get_ordered_terminals (chain %s)"
              % (chain if len(folds) == 1 else "?"), where(g))
    cl = [b for b in facts.closures_of(g) if any((c.path or "").endswith("Vec::push") for c in b.calls())]
    cl_ok = bool(cl) and not any(((c.path or "").split("::")[-1] in REORDER or (c.path or "").endswith("Vec::insert"))
                                 for b in cl for c in b.calls())
    ctx.check(cl_ok, "R13.3", "fold-closure-appends", "the fold closure only appends (push)",
              "the fold over the user terminals inserts/reorders instead of appending", where(g))
    disp = [b for b in facts.in_crate(PA) if b.path.startswith("<parol::generators::lexer_generator::ScannerBuildInfo as std::fmt::Display>::fmt")]
    root = [b for b in disp if b.kind != "Closure"]
    if len(root) != 1:
        raise AnchorMissing("Display for ScannerBuildInfo not found")
    bad = [(c.path or "").split("::")[-1] for b in disp for c in b.calls() if (c.path or "").split("::")[-1] in REORDER]
    ctx.check(not bad, "R13.3", "ScannerBuildInfo::fmt|vector-order",
              "the scanner macro text is written in vector order (no reordering adaptor)",
              "ScannerBuildInfo's Display reorders/filters its mappings or transitions (%s)" % bad, where(root[0]))

    # ---------------------------------------------------------------- R13.4
    oks = ok_blocks(g)
    plain = False
    for bi, rv, line in oks:
        rp = raw_operand_place(g, rv[4][0])
        d = single_def(g, rp[0]) if rp else None
        if d and d[0] == "assign" and d[3][0] == "agg" and d[3][1] == "tuple" and len(d[3][4]) == 2:
            tr = raw_operand_place(g, d[3][4][1])
            dd = single_def(g, tr[0]) if tr else None
            if dd and dd[0] == "call" and "std::clone::Clone::clone" in dd[3].names():
                src = raw_operand_place(g, dd[3].args[0])
                names2 = [e[2] for e in src[1:] if isinstance(e, list) and e[0] == "f"] if src else []
                plain = bool(src) and src[0] == 1 and names2 == ["transitions"]
    ctx.check(plain, "R13.4", "generate_build_information|transitions-unfiltered",
              "the transitions handed to the scanner generator are a plain clone of self.transitions",
              "generate_build_information does not pass self.transitions on unchanged: a declared %on .. %enter/%push/%pop "
              "can be missing from the generated scanner", where(g))

    # ---------------------------------------------------------------- R13.5
    EXP = "parol::grammar::symbol::TerminalKind::expand"
    n_exp = 0
    for b in facts.family(g):
        for c in b.calls():
            if c.path != EXP:
                continue
            n_exp += 1
            kp = raw_operand_place(b, c.args[0])
            tp = raw_operand_place(b, c.args[1])
            # look through a Deref::deref of the String/&str argument
            d = single_def(b, tp[0]) if tp else None
            hops = 0
            while d and d[0] == "call" and d[3].args and (d[3].names() & {"std::ops::Deref::deref", "std::string::String::as_str"}) and hops < 3:
                tp = raw_operand_place(b, d[3].args[0])
                d = single_def(b, tp[0]) if tp else None
                hops += 1
            kf = [e for e in (kp or [0])[1:] if isinstance(e, list) and e[0] == "f"]
            tf = [e for e in (tp or [0])[1:] if isinstance(e, list) and e[0] == "f"]
            ok = False
            how = ""
            if kp and tp and kp[0] == tp[0] and kf and tf:
                # same root object: (kind, pattern) of one LookaheadExpression or fields 1 / 0 of one terminal tuple
                if kf[-1][2] == "kind" and tf[-1][2] == "pattern" and kf[:-1] == tf[:-1]:
                    ok, how = True, "look-ahead expression's own kind and pattern"
                elif kf[-1][3] == "()" and tf[-1][3] == "()" and kf[-1][1] == 1 and tf[-1][1] == 0 and kf[:-1] == tf[:-1]:
                    ok, how = True, "terminal tuple's kind (field 1) and text (field 0)"
            ctx.check(ok, "R13.5", "%s|expand-with-own-kind|%d" % (short(b.path).split("::")[-1], n_exp),
                      "expand() is applied to the %s" % how,
                      "a pattern is expanded with a kind that does not belong to it (kind from %s, text from %s): raw / regex "
                      "quoting of the terminal or its look-ahead is mixed up" % ([e[2] for e in kf], [e[2] for e in tf]),
                      where(b, c.line))
    ctx.require_floor("R13.5", "expand_calls", n_exp, 2)
    no_binary_search_on_unsorted(ctx, facts)


def no_binary_search_on_unsorted(ctx, facts):
    """R13.6 (added after seed C13-c; expected count 0 in hand-written code) binary search is only used on data that is sorted
    by construction: outside the generated scanners (scnr2's character-class tables) no binary_search* / partition_point is
    applied to a list in the generators - in particular not to the scanner-state lists of terminals, which
    Cfg::get_ordered_terminals unites in order of encounter (`[1, 0]` when the occurrence in the higher state comes first);
    a binary search misses a member there and the terminal silently disappears from that scanner state."""
    from .common import fn_key
    hits = []
    n = 0
    for b in facts.in_crate(PA):
        if not (b.module or "").startswith(("parol::generators", "parol::grammar", "parol::analysis", "parol::transformation",
                                            "parol::conversions")):
            continue
        n += 1
        for c in b.calls():
            nm = (c.path or "").split("::")[-1]
            if nm.startswith("binary_search") or nm == "partition_point":
                # sorted in this body before the search?
                from ..dataflow import raw_operand_place
                from .. import cfg
                rp = raw_operand_place(b, c.args[0]) if c.args else None
                dom = cfg.Dom(b)
                sorted_here = any((x.path or "").split("::")[-1].startswith("sort") and dom.dominates(x.bb, c.bb) and
                                  (raw_operand_place(b, x.args[0]) or [None])[0] == (rp or [None])[0] for x in b.calls())
                if not sorted_here:
                    hits.append((b, c, nm))
    for b, c, nm in hits:
        ctx.bad("R13.6", "%s|%s" % (fn_key(b, facts), nm),
                "%s uses %s on a list that is not sorted in this function: a list in encounter order (e.g. the united scanner states of "
                "a terminal) makes the search miss members" % (short(b.path), nm), where(b, c.line))
    ctx.check(not hits, "R13.6", "no-binary-search-on-unsorted-lists", "no binary search on lists of unproven order in %d bodies" % n,
              "%d such search(es)" % len(hits), nontrivial=False)
    ctx.require_floor("R13.6", "bodies_scanned", n, 500)
