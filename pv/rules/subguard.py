"""Guarded unsigned subtraction: decides, for a MIR `SubWithOverflow(a, b)` + overflow assertion, whether a dominating
branch establishes a >= b.

Recognised guards (the idioms found in parol_runtime and parol, enumerated by reading all sites):
  * a dominating switch on a comparison of the same two value terms (`a > b`, `a >= b`, `b < a`, `b <= a`, `a == b`, and the
    false edges of the complementary comparisons),
  * for a constant subtrahend c: a comparison of `a` with a constant m that implies a >= c (`a > m` with m >= c-1,
    `a >= m`/`a == m` with m >= c, `a != 0` / false edge of `a == 0` for c == 1),
  * for `x.len() - 1`: the false edge of `x.is_empty()` on the same receiver.
Terms are value-origin terms (pv.dataflow.operand_term); a term that reads a field is only trusted when the enclosing body
does not write a field of that name (no intervening update)."""
from .. import cfg
from ..dataflow import operand_term
from .common import only_via_edge, recv_fields

UNSIGNED = ("usize", "u8", "u16", "u32", "u64", "u128")
REL = {  # (op, truth) -> relation between x and y
    ("Lt", True): "<", ("Lt", False): ">=", ("Le", True): "<=", ("Le", False): ">",
    ("Gt", True): ">", ("Gt", False): "<=", ("Ge", True): ">=", ("Ge", False): "<",
    ("Eq", True): "==", ("Ne", False): "==", ("Ne", True): "!=", ("Eq", False): "!=",
}


def _const_int(t):
    if t and t[0] == "const" and isinstance(t[2], int):
        return t[2]
    return None


def _teq(a, b):
    try:
        return a == b
    except Exception:
        return False


def _fields_of(term, acc=None):
    acc = set() if acc is None else acc
    if isinstance(term, tuple):
        if term and term[0] == "path":
            for e in term[2]:
                if isinstance(e, tuple) and e and e[0] == "f":
                    acc.add(e[1])
                elif isinstance(e, str):
                    acc.add(e)
        for x in term[1:]:
            _fields_of(x, acc)
    elif isinstance(term, list):
        for x in term:
            _fields_of(x, acc)
    return acc


def field_writes(body):
    """{field name: [blocks writing a place that ends in that field]}"""
    out = {}
    for bi, si, p, rv, line, mac in body.assigns():
        if len(p) > 1 and isinstance(p[-1], list) and p[-1][0] == "f":
            out.setdefault(p[-1][2], []).append(bi)
    return out


def _write_between(body, d, bi, fields, fw):
    """a write to one of `fields` on a path from the guard d to the subtraction bi that does not pass d again"""
    after = set()
    for _v, t in body.switch_edges(d):
        after |= cfg.reachable_from(body, t, avoid_blocks=[d])
    for f in fields:
        for w in fw.get(f, ()):
            if w in after and w != bi and bi in cfg.reachable_from(body, w, avoid_blocks=[d]):
                return True
            if w == bi:
                # a store in the block of the subtraction itself precedes the checked operation only if it comes first;
                # the result of the subtraction is stored after the assertion (next block)
                return True
    return False


def sub_sites(body):
    """[(block, line, a_operand, b_operand, type)] of the overflow-checked subtractions of a body"""
    out = []
    for bi, blk in enumerate(body.blocks):
        t = blk["t"]
        if t[0] == "assert" and not blk.get("c") and t[3] == "Overflow":
            st = [s for s in blk["s"] if s[0] == "a" and s[2][0] == "bin" and s[2][1] == "SubWithOverflow"]
            if not st:
                continue
            s = st[-1]
            a, b = s[2][2], s[2][3]
            ty = None
            for o in (a, b):
                if o[0] == "k":
                    ty = o[1]
                elif o[0] in ("c", "m") and len(o[1]) == 1:
                    ty = body.local_ty(o[1][0])
                if ty:
                    break
            out.append((bi, s[3], a, b, ty))
    return out


def _switch_cmp(body, d):
    """(op, x, y, negated) when block d switches on a comparison, ('call', Call, negated) for a bool call"""
    t = body.term(d)
    if t[0] != "switch":
        return None
    term = operand_term(body, t[1])
    neg = False
    while term[0] == "un" and term[1] == "Not":
        term = term[2]
        neg = not neg
    if term[0] == "bin" and term[1] in ("Lt", "Le", "Gt", "Ge", "Eq", "Ne"):
        return ("bin", term[1], term[2], term[3], neg)
    if term[0] == "call":
        return ("call", term[1], neg)
    return None


def guarded(body, bi, a, b, dom=None):
    """(True, description) when a dominating guard implies a >= b"""
    dom = dom or cfg.Dom(body)
    ta, tb = operand_term(body, a), operand_term(body, b)
    cb = _const_int(tb)
    wf = None
    for d in dom.dominators(bi):
        if d == bi:
            continue
        sc = _switch_cmp(body, d)
        if sc is None:
            continue
        if only_via_edge(body, d, {None}, bi):
            truth = True
        elif only_via_edge(body, d, {0}, bi):
            truth = False
        else:
            continue
        if sc[0] == "call":
            c, neg = sc[1], sc[2]
            if neg:
                truth = not truth
            n = (c.path or "").split("::")[-1]
            if n == "is_empty" and not truth and cb == 1 and ta[0] == "call" \
                    and (ta[1].path or "").split("::")[-1] == "len" \
                    and _teq(operand_term(body, c.args[0]), operand_term(body, ta[1].args[0])):
                return True, "!is_empty() at line %s" % body.blocks[d].get("l")
            continue
        _k, op, x, y, neg = sc
        if neg:
            truth = not truth
        rel = REL[(op, truth)]
        ok = False
        if _teq(x, ta) and _teq(y, tb):
            ok = rel in (">=", ">", "==")
        elif _teq(x, tb) and _teq(y, ta):
            ok = rel in ("<=", "<", "==")
        elif cb is not None:
            m = _const_int(y) if _teq(x, ta) else None
            r = rel
            if m is None and _teq(y, ta) and _const_int(x) is not None:
                m = _const_int(x)
                r = {"<": ">", "<=": ">=", ">": "<", ">=": "<=", "==": "==", "!=": "!="}[rel]
            if m is not None:
                ok = (r == ">" and m >= cb - 1) or (r in (">=", "==") and m >= cb) or (r == "!=" and m == 0 and cb == 1)
        if ok:
            if wf is None:
                wf = field_writes(body)
            if _write_between(body, d, bi, _fields_of(ta) | _fields_of(tb), wf):
                continue
            return True, "%s %s at line %s" % (op, "true" if truth else "false", body.blocks[d].get("l"))
    return False, None


def inventory(ctx, facts, cg, seen, rule, table, floor, what="parse paths"):
    """every overflow-checked unsigned `a - b` in the reachable bodies `seen` is discharged by a dominating guard or listed in
    `table` {fn_key: (count, reason)}"""
    from .common import fn_key, where, short
    nsub = nauto = 0
    unguarded = {}
    for k, (b, pk, info) in sorted(seen.items()):
        sites = sub_sites(b)
        if not sites:
            continue
        dom = cfg.Dom(b)
        for bi, line, a, bb, ty in sites:
            if ty not in UNSIGNED:
                continue
            nsub += 1
            g, why = guarded(b, bi, a, bb, dom)
            if g:
                nauto += 1
                ctx.ok(rule, "%s|sub@guarded" % fn_key(b, facts), "a - b is dominated by a guard implying a >= b (%s)" % why,
                       where(b, line))
            else:
                unguarded.setdefault(fn_key(b, facts), []).append((b, line))
    for key, sites in sorted(unguarded.items()):
        allowed = table.get(key)
        b, line = sites[0]
        if allowed and len(sites) <= allowed[0]:
            ctx.ok(rule, key + "|sub", "%d reviewed subtraction(s) without a syntactic guard: %s" % (len(sites), allowed[1]),
                   where(b, line))
        else:
            ctx.bad(rule, key + "|sub", "%d unsigned subtraction(s) (lines %s) on the %s without a dominating guard a >= b%s; an "
                    "underflow panics in debug builds and wraps to a huge length/index in release builds; call chain: %s"
                    % (len(sites), [l for _b, l in sites], what,
                       " (%d were reviewed)" % allowed[0] if allowed else " and not in the reviewed table",
                       " -> ".join(short(x) for x in cg.chain(seen, b)[-5:])), where(b, sites[-1][1]))
    ctx.counters["unsigned_subtractions"] = nsub
    ctx.counters["subtractions_discharged_by_guard"] = nauto
    ctx.require_floor(rule, "unsigned_subtractions", nsub, floor)
