"""C31 Recovery edit scripts are minimal and correct - thin: the three tables of EditOp agree.

R31.1 sibling_arms(EditOp): per variant,
      * back-track of Recovery::levenshtein_distance: which of the cursors (i over the scanned, j over the expected
        sequence) is decremented, and which op is recorded,
      * LLKParser::adjust_token_stream: increments of (stream_idx, exp_idx) and the token-stream edit performed,
      must equal the table   Keep (i-1, j-1; stream+1, exp+1; no edit) . Replace (i-1, j-1; +1, +1; replace_token_type_at)
      . Insert (j-1 only; +1, +1; insert_token_at) . Delete (i-1 only; +0, +0; remove_token_at).
      Consuming an expected symbol (j-1) must advance exp_idx; the stream cursor moves past every token that remains in
      the stream.  A disagreement applies the script to the wrong positions.
R31.2 the matrix fill agrees with the back-track table (see fill_rules): the operation recorded for a cell names the
      predecessor whose cost was taken, each candidate test compares the cell that is then taken, boundary row / column
      carry Insert / Delete, Keep copies d[i-1][j-1].
R31.3 constant scripts (`vec![op; n]`, the early returns for an empty sequence): Insert consumes an expected symbol and Delete a
      scanned token (R31.1), so Insert must not be chosen where `exp.is_empty()` is known to hold, Delete not where
      `act.is_empty()` holds, Keep / Replace under neither; a count that is plainly `act.len()` / `exp.len()` must be the length
      of the sequence the operation consumes (seed C31-d).
Minimality of the distance as a value and scripts produced by a *restructured* algorithm (e.g. prefix stripping, seed
C31-a) are NOT decided.
"""
from .. import cfg
from ..dataflow import operand_term, raw_operand_place, term_str, single_def
from ..facts import AnchorMissing
from .common import RT, where, short, only_via_edge
from . import ll

CRATES = ["parol_runtime.lib"]

META = {
    "explanation": "Decides agreement of the three per-variant tables of the edit-script machinery (recording, back-tracking, "
                   "application): a structural necessary condition for 'the script turns the scanned sequence into the "
                   "expected one'. Minimality is arithmetic and not decided.",
}

LEV = "parol_runtime::parser::recovery::Recovery::levenshtein_distance"
EDITOP = "parol_runtime::parser::recovery::EditOp"
WANT_BACK = {"Keep": (1, 1), "Replace": (1, 1), "Insert": (0, 1), "Delete": (1, 0)}
WANT_APPLY = {"Keep": (1, 1, None), "Replace": (1, 1, "replace_token_type_at"), "Insert": (1, 1, "insert_token_at"),
              "Delete": (0, 0, "remove_token_at")}


def match_on_editop(body, facts):
    """switch blocks on the discriminant of an EditOp value: [(block, {variant: target})]"""
    variants = [v["name"] for v in facts.adt(EDITOP)["variants"]]
    out = []
    for d in range(len(body.blocks)):
        t = body.term(d)
        if t[0] != "switch":
            continue
        for s in body.stmts(d):
            if s[0] == "a" and s[2][0] == "disc" and t[1][0] in ("c", "m") and t[1][1] == s[1]:
                ty = body.local_ty(s[2][1][0])
                if "EditOp" in ty:
                    arms = {}
                    for v, tg in t[2]:
                        if isinstance(v, int) and v < len(variants):
                            arms[variants[v]] = tg
                    out.append((d, arms))
    return out


def arm_blocks(body, d, arms, variant, vidx):
    return {b for b in cfg.reachable_from(body, arms[variant], avoid_blocks=[d])
            if only_via_edge(body, d, {vidx}, b)}


def delta(body, blocks, local, op):
    n = 0
    for bi, si, p, rv, line, mac in body.assigns():
        if bi in blocks and rv[0] == "bin" and rv[1].startswith(op):
            a = operand_term(body, rv[2])
            if a[0] in ("path", "local") and a[1] == local and rv[3][0] == "k" and rv[3][2] == 1:
                n += 1
    return n


def check(ctx):
    facts = ctx.facts()
    variants = [v["name"] for v in facts.adt(EDITOP)["variants"]]
    if sorted(variants) != sorted(WANT_BACK):
        raise AnchorMissing("EditOp variants changed: %s" % variants)
    lev = facts.body(LEV)
    ms = [m for m in match_on_editop(lev, facts) if len(m[1]) == len(variants)]
    if len(ms) != 1:
        raise AnchorMissing("levenshtein_distance: expected one match on EditOp (back-track), found %d" % len(ms))
    d, arms = ms[0]
    back_d = d
    ms_back = ms[0]
    # the back-track cursors: the two variables that index the operation matrix whose element the match inspects
    # (`match &ops[i][j]`), identified structurally - local names play no role
    I = J = None
    for st in lev.stmts(d):
        if st[0] == "a" and st[2][0] == "disc":
            root = st[2][1][0]
            t = _sh_place(lev, [root]) if not lev.local_name(root) else None
            if t is None:
                dd = single_def(lev, root)
                t = _sh(lev, ["c", dd[3][-1]]) if dd and dd[0] == "assign" and dd[3][0] in ("ref", "ptr") else ("unknown",)
            if t[0] == "call":
                cell = _cell_of_index_call(lev, t[1])
                if cell and cell[1] and cell[2] and cell[1][0] == "v" and cell[2][0] == "v":
                    I, J = cell[1][1], cell[2][1]
    if I is None or J is None:
        raise AnchorMissing("levenshtein_distance: cannot identify the back-track cursors (the indices of the matched matrix element)")
    for v in variants:
        blocks = arm_blocks(lev, d, arms, v, variants.index(v))
        got = (delta(lev, blocks, I, "Sub"), delta(lev, blocks, J, "Sub"))
        pushed = [rv[3] for bi, si, p, rv, line, mac in lev.assigns() if bi in blocks and rv[0] == "agg" and rv[2] == EDITOP]
        ctx.check(got == WANT_BACK[v] and pushed == [v], "R31.1", "backtrack|%s" % v,
                  "back-track of %s: i-%d, j-%d, records %s" % (v, got[0], got[1], pushed),
                  "back-track arm %s decrements (i, j) by %s and records %s; expected %s and [%s]: the edit script would "
                  "be read off the wrong cells" % (v, got, pushed, WANT_BACK[v], v), where(lev, lev.line_of_block(arms[v])))

    adj = facts.body(ll.ADJUST)
    ms = [m for m in match_on_editop(adj, facts) if len(m[1]) == len(variants)]
    if len(ms) != 1:
        raise AnchorMissing("adjust_token_stream: expected one complete match on EditOp, found %d" % len(ms))
    d, arms = ms[0]
    # stream cursor: the position argument of the token-stream edits; expected cursor: the other counter advanced in the arms
    S = set()
    for c in adj.calls():
        if (c.path or "").startswith(ll.TS) and c.path.split("::")[-1] in ("replace_token_type_at", "insert_token_at",
                                                                          "remove_token_at") and len(c.args) > 1:
            t = _sh(adj, c.args[1])
            if t[0] == "var":
                S.add(t[2])
    allarm = set()
    for v in variants:
        allarm |= arm_blocks(adj, d, arms, v, variants.index(v))
    E = set()
    for bi, si, p, rv, line, mac in adj.assigns():
        if bi in allarm and rv[0] == "bin" and rv[1].startswith("Add") and rv[3][0] == "k" and rv[3][2] == 1:
            t = _sh(adj, rv[2])
            if t[0] == "var" and t[2] not in S:
                E.add(t[2])
    S, E = sorted(S), sorted(E)
    if len(S) != 1 or len(E) != 1:
        raise AnchorMissing("adjust_token_stream: cannot identify the stream cursor / expected cursor (%s / %s)" % (S, E))
    for v in variants:
        blocks = arm_blocks(adj, d, arms, v, variants.index(v))
        ds, de = delta(adj, blocks, S[0], "Add"), delta(adj, blocks, E[0], "Add")
        edits = [c.path.split("::")[-1] for c in adj.calls() if c.bb in blocks and (c.path or "").startswith(ll.TS)
                 and c.path.split("::")[-1] in ("replace_token_type_at", "insert_token_at", "remove_token_at")]
        want = WANT_APPLY[v]
        ok = (ds, de) == want[:2] and edits == ([want[2]] if want[2] else [])
        # the edit is applied at stream_idx with expected[exp_idx]
        for c in adj.calls():
            if c.bb in blocks and (c.path or "").startswith(ll.TS) and c.path.split("::")[-1] in edits:
                t = operand_term(adj, c.args[1])
                ok = ok and t[0] in ("path", "local") and t[1] == S[0]
        ctx.check(ok, "R31.1", "apply|%s" % v,
                  "%s: stream_idx+%d, exp_idx+%d, edit %s at stream_idx" % (v, ds, de, edits or "none"),
                  "adjust_token_stream arm %s advances (stream_idx, exp_idx) by (%d, %d) and performs %s; expected %s"
                  % (v, ds, de, edits, want), where(adj, adj.line_of_block(arms[v])))
        # agreement with the back-track: an expected symbol is consumed iff j is decremented
        ctx.check((de == 1) == (WANT_BACK[v][1] == 1) or v == "Delete", "R31.1", "agree|%s" % v,
                  "exp_idx advances exactly when the back-track consumes an expected symbol",
                  "exp_idx advance and back-track disagree for %s" % v, where(adj), nontrivial=False)
    # the back-track collects the operations from the end: the script must be reversed exactly once before it is returned
    revs = [c for c in lev.calls() if (c.path or "").split("::")[-1] == "reverse" and "EditOp" in (c.self_ty or "")]
    dom = cfg.Dom(lev)
    loop = cfg.loop_containing(lev, d if False else ms_back[0], innermost=False) if False else None
    rets = lev.return_blocks()
    ok = len(revs) == 1 and revs[0].bb not in (cfg.loop_containing(lev, back_d, innermost=False) or (0, set(), []))[1]
    ctx.check(ok, "R31.1", "backtrack|reversed-once",
              "the collected operations are reversed exactly once after the back-track loop",
              "the back-tracked operations are not reversed exactly once after the loop (%d reverse calls): the script would "
              "be applied back to front" % len(revs), where(lev))
    fill_rules(ctx, facts, lev)
    boundary_scripts(ctx, lev)


# ------------------------------------------------------------------------------------------------------------------ R31.2
WANT_FILL = {"Delete": (1, 0), "Insert": (0, 1), "Replace": (1, 1)}


def _peel(t):
    while isinstance(t, tuple) and t and t[0] == "proj":
        t = t[1]
    return t


def _sh_place(body, place, depth=10):
    """shallow value term that stops at user-named locals: ('var', name, local) | ('const', v) | ('bin', op, a, b) |
    ('call', Call) | ('unknown',)"""
    l = place[0]
    if body.local_name(l):
        return ("var", body.local_name(l), l)
    if depth <= 0:
        return ("unknown",)
    d = single_def(body, l)
    if d is None:
        return ("unknown",)
    if d[0] == "call":
        return ("call", d[3])
    rv = d[3]
    if rv[0] == "use":
        return _sh(body, rv[1], depth - 1)
    if rv[0] in ("ref", "ptr", "cfd"):
        return _sh_place(body, rv[-1], depth - 1)
    if rv[0] == "cast":
        return _sh(body, rv[2], depth - 1)
    if rv[0] == "bin":
        return ("bin", rv[1], _sh(body, rv[2], depth - 1), _sh(body, rv[3], depth - 1))
    return ("unknown",)


def _sh(body, op, depth=10):
    if op[0] == "k":
        return ("const", op[2])
    if op[0] in ("c", "m"):
        return _sh_place(body, op[1], depth)
    return ("unknown",)


def _idx(body, t, I=None, J=None):
    """('v', local, offset) for an index term that is a variable or a variable minus 1, ('0', 0) for the constant 0"""
    if t[0] == "const" and t[1] == 0:
        return ("0", 0)
    if t[0] == "var":
        return ("v", t[2], 0)
    if t[0] == "bin" and t[1].startswith("Sub") and t[2][0] == "var" and t[3] == ("const", 1):
        return ("v", t[2][2], 1)
    return None


def _matrix_kind(body, local):
    """'d' for the cost matrix (Vec<Vec<usize>>), 'ops' for the operation matrix (Vec<Vec<EditOp>>), by type"""
    ty = body.local_ty(local).replace("std::vec::", "").replace("&", "").replace("mut ", "").strip()
    if ty.startswith("Vec<Vec<") and "EditOp" in ty:
        return "ops"
    if ty.startswith("Vec<Vec<usize"):
        return "d"
    return None


def _cell_of_index_call(body, c, I=None, J=None):
    """(matrix kind 'd'|'ops', idx1, idx2) for m[idx1][idx2] given the *inner* Index/IndexMut call"""
    if (c.path or "").split("::")[-1] not in ("index", "index_mut") or len(c.args) < 2:
        return None
    outer = _sh(body, c.args[0])
    if outer[0] != "call" or (outer[1].path or "").split("::")[-1] not in ("index", "index_mut"):
        return None
    oc = outer[1]
    m = _sh(body, oc.args[0])
    if m[0] != "var":
        return None
    kind = _matrix_kind(body, m[2])
    if kind is None:
        return None
    return (kind, _idx(body, _sh(body, oc.args[1])), _idx(body, _sh(body, c.args[1])))


def _cost_cell_sh(body, t):
    plus = 0
    if t[0] == "bin" and t[1].startswith("Add") and t[3] == ("const", 1):
        plus = 1
        t = t[2]
    if t[0] != "call":
        return None
    c = _cell_of_index_call(body, t[1])
    return c + (plus,) if c else None


def _cost_cell(body, op_or_rv, I=None, J=None):
    """(matrix, idx1, idx2, plus) of an operand / rvalue  m[a][b]  or  m[a][b] + 1"""
    if op_or_rv and op_or_rv[0] in ("c", "m", "k"):
        return _cost_cell_sh(body, _sh(body, op_or_rv))
    rv = op_or_rv
    if rv[0] == "use":
        return _cost_cell_sh(body, _sh(body, rv[1]))
    if rv[0] == "bin":
        return _cost_cell_sh(body, ("bin", rv[1], _sh(body, rv[2]), _sh(body, rv[3])))
    return None


def fill_rules(ctx, facts, lev):
    """R31.2 the matrix fill agrees with the back-track table: the operation recorded for a cell names the predecessor whose cost
    was taken: Delete <- d[i-1][j] + 1, Insert <- d[i][j-1] + 1, Replace <- d[i-1][j-1] + 1, Keep <- d[i-1][j-1]; each `candidate <
    min` test compares the same cell that is taken; the boundary column/row carry Delete / Insert (the only move that stays
    inside the matrix).  The back-track (R31.1) decrements i for Delete, j for Insert, both for Replace/Keep - a fill that
    records another operation for a predecessor makes the script walk to a cell the cost did not come from."""
    dom = cfg.Dom(lev)
    # the target cell of the fill loop d[R][C] (both indices plain variables) defines the row / column variables
    R = C = None
    for bi, si, p, rv, line, mac in lev.assigns():
        if len(p) == 2 and p[1] == "*" and rv[0] == "use":
            sd = single_def(lev, p[0])
            cell = _cell_of_index_call(lev, sd[3]) if sd and sd[0] == "call" else None
            if cell and cell[0] == "d" and cell[1] and cell[2] and cell[1][0] == "v" and cell[2][0] == "v" \
                    and cell[1][2] == 0 and cell[2][2] == 0:
                R, C = cell[1][1], cell[2][1]
    if R is None:
        raise AnchorMissing("levenshtein_distance: no store d[r][c] = .. with two index variables found (the fill loop)")

    def rel(ix):
        """index component relative to the fill variables: ('i'|'j', offset) | ('0', 0) | None"""
        if ix is None:
            return None
        if ix[0] == "0":
            return ("0", 0)
        return ("i", ix[2]) if ix[1] == R else ("j", ix[2]) if ix[1] == C else ("?", ix[2])

    def relcell(c):
        if not c:
            return None
        return (c[0], rel(c[1]), rel(c[2])) + tuple(c[3:])

    # the running minimum: the usize variable all of whose assignments are cost cells of d; the recorded operation: the
    # EditOp-typed variable with several assignments
    MIN = [l for l in range(len(lev.locals)) if lev.local_name(l) and lev.local_ty(l) == "usize" and
           len([x for x in lev.defs(l) if x[0] == "assign"]) >= 2 and
           all(_cost_cell(lev, x[3]) is not None for x in lev.defs(l) if x[0] == "assign")]
    OP = [l for l in range(len(lev.locals)) if lev.local_name(l) and lev.local_ty(l).endswith("EditOp") and
          not lev.local_ty(l).startswith("&") and len([x for x in lev.defs(l) if x[0] == "assign"]) >= 2]
    if len(MIN) == 1 and len(OP) > 1:
        # the recorded operation of the fill is assigned after (dominated by) an assignment of the running minimum; an
        # EditOp variable of an early return in front of the matrix is not
        mb = [x[1] for x in lev.defs(MIN[0]) if x[0] == "assign"]
        OP = [l for l in OP if any(any(dom.dominates(m, x[1]) for m in mb) for x in lev.defs(l) if x[0] == "assign")]
    if len(MIN) != 1 or len(OP) != 1:
        raise AnchorMissing("levenshtein_distance: cannot identify the running minimum / recorded operation of the fill loop "
                            "(%s / %s)" % (MIN, OP))
    MIN, OP = MIN[0], OP[0]
    I = J = None
    mins = []
    for d in lev.defs(MIN):
        if d[0] == "assign":
            mins.append((d[1], relcell(_cost_cell(lev, d[3])), lev.line_of_block(d[1])))
    nops = 0
    recs = []
    for d in lev.defs(OP):
        if d[0] != "assign":
            continue
        rv = d[3]
        if rv[0] == "use":
            # `op = <temp>`: the temporary may be defined in several arms (`op = if c { A } else { B }`): every arm records
            src = raw_operand_place(lev, rv[1])
            sd = [x for x in lev.defs(src[0]) if x[0] == "assign"] if src else []
            if sd:
                for x in sd:
                    recs.append((x[1] if len(sd) > 1 else d[1], x[3]))
                continue
        recs.append((d[1], rv))
    for B, rv in recs:
        if rv[0] != "agg" or rv[2] != EDITOP:
            continue
        v = rv[3]
        # nearest dominating assignment of min
        cands = [(mb, cell, ln) for mb, cell, ln in mins if dom.dominates(mb, B)]
        cands.sort(key=lambda x: len(dom.dominators(x[0])))
        near = cands[-1] if cands else None
        nops += 1
        want = WANT_FILL.get(v)
        got = None
        if near and near[1]:
            m, a, b2, plus = near[1]
            got = (m, a, b2, plus)
        ok = bool(want and got and got[0] == "d" and got[1] == ("i", want[0]) and got[2] == ("j", want[1]) and got[3] == 1)
        ctx.check(ok, "R31.2", "fill|%s" % v,
                  "%s is recorded for the cost d[i-%d][j-%d] + 1" % (v, want[0], want[1]) if want else "",
                  "the fill records %s for the cost taken from %s (expected d[i-%s][j-%s] + 1): the back-track moves to a cell the "
                  "cost did not come from, the script no longer matches the distance" % (v, got, want and want[0], want and want[1]),
                  where(lev, lev.line_of_block(B)))
    ctx.require_floor("R31.2", "recorded_operations", nops, 3)
    # candidate tests
    tests = []
    for t in range(len(lev.blocks)):
        term = lev.term(t)
        if term[0] != "switch":
            continue
        tt = _sh(lev, term[1])
        if tt[0] != "bin" or tt[1] not in ("Lt", "Le", "Gt", "Ge"):
            continue
        cand = None
        for s in (tt[2], tt[3]):
            c = relcell(_cost_cell_sh(lev, s))
            if c and c[0] == "d":
                cand = c
        if cand is None or not any(s[0] == "var" and s[2] == MIN for s in (tt[2], tt[3])):
            continue
        tests.append((t, cand))
    ntests = len(tests)
    for t, cand in tests:
        taken = [mb for mb, cell, ln in mins if mb != t and only_via_edge(lev, t, {None}, mb) and
                 not any(t2 != t and dom.dominates(t, t2) and dom.dominates(t2, mb) for t2, _c in tests)]
        cells = [cell for mb, cell, ln in mins if mb in taken]
        ctx.check(bool(cells) and all(c == cand for c in cells), "R31.2", "fill|candidate-test@%s" % (cand[1:],),
                  "the tested candidate %s is the cost that is taken" % (cand,),
                  "the candidate compared with min is %s but the cost taken on that branch is %s" % (cand, cells),
                  where(lev, lev.line_of_block(t)))
    ctx.require_floor("R31.2", "candidate_tests", ntests, 2)
    # stores into the operation matrix: boundary and Keep
    stores = []
    for bi, si, p, rv, line, mac in lev.assigns():
        if len(p) == 2 and p[1] == "*" and rv[0] == "use":
            sd = single_def(lev, p[0])
            if not sd or sd[0] != "call":
                continue
            cell = relcell(_cell_of_index_call(lev, sd[3], I, J))
            if not cell or cell[0] != "ops":
                continue
            src = raw_operand_place(lev, rv[1])
            vd = [x for x in lev.defs(src[0]) if x[0] == "assign"] if src else []
            var = None
            if len(vd) == 1 and vd[0][3][0] == "agg" and vd[0][3][2] == EDITOP:
                var = vd[0][3][3]
            stores.append((cell, var, line, bi))
    for cell, var, line, bi in stores:
        _m, a, b2 = cell
        isvar = lambda x: x is not None and x[0] in ("i", "j", "?") and x[1] == 0
        if isvar(a) and b2 == ("0", 0):
            ctx.check(var == "Delete", "R31.2", "fill|boundary-column", "ops[i][0] = Delete (only i can be decremented)",
                      "ops[i][0] is %s: in column 0 only Delete stays inside the matrix" % var, where(lev, line))
        elif a == ("0", 0) and isvar(b2):
            ctx.check(var == "Insert", "R31.2", "fill|boundary-row", "ops[0][j] = Insert (only j can be decremented)",
                      "ops[0][j] is %s: in row 0 only Insert stays inside the matrix" % var, where(lev, line))
        elif var == "Keep":
            # the cost stored next to it is d[i-1][j-1] unchanged
            okk = False
            for bi2, si2, p2, rv2, line2, mac2 in lev.assigns():
                if len(p2) == 2 and p2[1] == "*" and rv2[0] == "use" and (dom.dominates(bi2, bi) or dom.dominates(bi, bi2)):
                    sd = single_def(lev, p2[0])
                    c2 = relcell(_cell_of_index_call(lev, sd[3], I, J)) if sd and sd[0] == "call" else None
                    if c2 and c2[0] == "d" and c2[1] == ("i", 0) and c2[2] == ("j", 0):
                        val = relcell(_cost_cell(lev, rv2[1]))
                        if val == ("d", ("i", 1), ("j", 1), 0) and abs(line2 - line) <= 2:
                            okk = True
            ctx.check(okk, "R31.2", "fill|Keep", "Keep is recorded together with d[i][j] = d[i-1][j-1]",
                      "Keep is recorded but the cost stored for the cell is not d[i-1][j-1] unchanged", where(lev, line))
    ctx.require_floor("R31.2", "operation_matrix_stores", len(stores), 4)


def boundary_scripts(ctx, lev):
    """R31.3 constant scripts built with vec![op; n]"""
    dom = cfg.Dom(lev)
    def seq_of_ref(opnd):
        # operand -> 1 (act) | 2 (exp) when it is a reborrow of that argument
        pl = raw_operand_place(lev, opnd)
        if not pl:
            return None
        sd = single_def(lev, pl[0])
        if sd and sd[0] == "assign" and sd[3][0] == "ref" and sd[3][2] and sd[3][2][0] in (1, 2):
            return sd[3][2][0]
        return pl[0] if pl[0] in (1, 2) else None

    # switches on act.is_empty() / exp.is_empty()
    guards = []
    for c in lev.calls():
        if (c.path or "").endswith("slice::is_empty") and c.dest and len(c.dest) == 1 and c.args:
            sq = seq_of_ref(c.args[0])
            if sq is None:
                continue
            for d in range(len(lev.blocks)):
                t = lev.term(d)
                if t[0] == "switch" and t[1][0] in ("c", "m") and t[1][1] == c.dest:
                    guards.append((d, sq))
    name = {1: "act", 2: "exp"}
    consumes = {"Insert": 2, "Delete": 1}
    n = 0
    for c in lev.calls():
        if not (c.path or "").endswith("vec::from_elem") or "EditOp" not in (c.callee.get("pa") or "") or len(c.args) < 2:
            continue
        src = raw_operand_place(lev, c.args[0])
        recs = []
        todo = [src[0]] if src else []
        seen = set()
        while todo:
            l = todo.pop()
            if l in seen:
                continue
            seen.add(l)
            for x in lev.defs(l):
                if x[0] != "assign":
                    continue
                if x[3][0] == "agg" and x[3][2] == EDITOP:
                    recs.append((x[1], x[3][3]))
                elif x[3][0] == "use":
                    q = raw_operand_place(lev, x[3][1])
                    if q:
                        todo.append(q[0])
        cnt = None
        cp = raw_operand_place(lev, c.args[1])
        cd = single_def(lev, cp[0]) if cp else None
        if cd and cd[0] == "call" and (cd[2].path if len(cd) == 3 else cd[3].path or "").endswith("slice::len"):
            cc = cd[2] if len(cd) == 3 else cd[3]
            cnt = seq_of_ref(cc.args[0]) if cc.args else None
        for B, v in recs:
            n += 1
            empty = {sq for d, sq in guards if dom.dominates(d, B) and only_via_edge(lev, d, {None}, B)}
            want = consumes.get(v)
            bad = None
            if want is None and empty:
                bad = "%s is chosen where %s is known to be empty" % (v, "/".join(name[e] for e in sorted(empty)))
            elif want in empty:
                bad = "%s is chosen where %s.is_empty() holds: there is nothing it could consume" % (v, name[want])
            elif want is not None and cnt is not None and cnt != want:
                bad = "%s is repeated %s.len() times but consumes one element of %s each" % (v, name[cnt], name[want])
            ctx.check(bad is None, "R31.3", "constant-script|%s" % v,
                      "vec![%s; n]: the operation consumes the sequence that is not known to be empty" % v,
                      "%s: the script does not turn the scanned sequence into the expected one when exactly one of them is "
                      "empty" % bad, where(lev, c.line))
