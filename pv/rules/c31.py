"""C31 Recovery edit scripts are minimal and correct - thin: the three tables of EditOp agree.

R31.1 sibling_arms(EditOp): per variant,
      * back-track of Recovery::levenshtein_distance: which of the cursors (i over the scanned, j over the expected
        sequence) is decremented, and which op is recorded,
      * LLKParser::adjust_token_stream: increments of (stream_idx, exp_idx) and the token-stream edit performed,
      must equal the table   Keep (i-1, j-1; stream+1, exp+1; no edit) . Replace (i-1, j-1; +1, +1; replace_token_type_at)
      . Insert (j-1 only; +1, +1; insert_token_at) . Delete (i-1 only; +0, +0; remove_token_at).
      Consuming an expected symbol (j-1) must advance exp_idx; the stream cursor moves past every token that remains in
      the stream.  A disagreement applies the script to the wrong positions.
Minimality of the distance (min selection, +1 costs) is arithmetic and NOT decided.
"""
from .. import cfg
from ..dataflow import operand_term, raw_operand_place, term_str
from ..facts import AnchorMissing
from .common import RT, where, short, only_via_edge
from . import ll

CRATES = ["parol_runtime.lib"]

META = {
    "explanation": "Decides agreement of the three per-variant tables of the edit-script machinery (recording, back-tracking, "
                   "application): a structural necessary condition for 'the script turns the scanned sequence into the "
                   "expected one'. Minimality is arithmetic and not decided.",
}

LEV = "parol_runtime::parser::recovery::Recovery::levenshtein_distance"
EDITOP = "parol_runtime::parser::recovery::EditOp"
WANT_BACK = {"Keep": (1, 1), "Replace": (1, 1), "Insert": (0, 1), "Delete": (1, 0)}
WANT_APPLY = {"Keep": (1, 1, None), "Replace": (1, 1, "replace_token_type_at"), "Insert": (1, 1, "insert_token_at"),
              "Delete": (0, 0, "remove_token_at")}


def match_on_editop(body, facts):
    """switch blocks on the discriminant of an EditOp value: [(block, {variant: target})]"""
    variants = [v["name"] for v in facts.adt(EDITOP)["variants"]]
    out = []
    for d in range(len(body.blocks)):
        t = body.term(d)
        if t[0] != "switch":
            continue
        for s in body.stmts(d):
            if s[0] == "a" and s[2][0] == "disc" and t[1][0] in ("c", "m") and t[1][1] == s[1]:
                ty = body.local_ty(s[2][1][0])
                if "EditOp" in ty:
                    arms = {}
                    for v, tg in t[2]:
                        if isinstance(v, int) and v < len(variants):
                            arms[variants[v]] = tg
                    out.append((d, arms))
    return out


def arm_blocks(body, d, arms, variant, vidx):
    return {b for b in cfg.reachable_from(body, arms[variant], avoid_blocks=[d])
            if only_via_edge(body, d, {vidx}, b)}


def delta(body, blocks, local, op):
    n = 0
    for bi, si, p, rv, line, mac in body.assigns():
        if bi in blocks and rv[0] == "bin" and rv[1].startswith(op):
            a = operand_term(body, rv[2])
            if a[0] in ("path", "local") and a[1] == local and rv[3][0] == "k" and rv[3][2] == 1:
                n += 1
    return n


def check(ctx):
    facts = ctx.facts()
    variants = [v["name"] for v in facts.adt(EDITOP)["variants"]]
    if sorted(variants) != sorted(WANT_BACK):
        raise AnchorMissing("EditOp variants changed: %s" % variants)
    lev = facts.body(LEV)
    ms = [m for m in match_on_editop(lev, facts) if len(m[1]) == len(variants)]
    if len(ms) != 1:
        raise AnchorMissing("levenshtein_distance: expected one match on EditOp (back-track), found %d" % len(ms))
    d, arms = ms[0]
    back_d = d
    ms_back = ms[0]
    ii = [l for l in lev.locals_named("i")]
    jj = [l for l in lev.locals_named("j")]
    # the back-track cursors are the multi-definition locals named i / j that are decremented
    def cursor(cands):
        for l in cands:
            if any(rv[0] == "bin" and rv[1].startswith("Sub") and operand_term(lev, rv[2])[0] in ("path", "local")
                   and operand_term(lev, rv[2])[1] == l for _b, _s, _p, rv, _l, _m in lev.assigns()):
                if len([x for x in lev.defs(l) if x[0] == "assign"]) > 1:
                    return l
        return None
    I, J = cursor(ii), cursor(jj)
    if I is None or J is None:
        raise AnchorMissing("levenshtein_distance: cannot identify the back-track cursors i / j")
    for v in variants:
        blocks = arm_blocks(lev, d, arms, v, variants.index(v))
        got = (delta(lev, blocks, I, "Sub"), delta(lev, blocks, J, "Sub"))
        pushed = [rv[3] for bi, si, p, rv, line, mac in lev.assigns() if bi in blocks and rv[0] == "agg" and rv[2] == EDITOP]
        ctx.check(got == WANT_BACK[v] and pushed == [v], "R31.1", "backtrack|%s" % v,
                  "back-track of %s: i-%d, j-%d, records %s" % (v, got[0], got[1], pushed),
                  "back-track arm %s decrements (i, j) by %s and records %s; expected %s and [%s]: the edit script would "
                  "be read off the wrong cells" % (v, got, pushed, WANT_BACK[v], v), where(lev, lev.line_of_block(arms[v])))

    adj = facts.body(ll.ADJUST)
    ms = [m for m in match_on_editop(adj, facts) if len(m[1]) == len(variants)]
    if len(ms) != 1:
        raise AnchorMissing("adjust_token_stream: expected one complete match on EditOp, found %d" % len(ms))
    d, arms = ms[0]
    S = adj.locals_named("stream_idx")
    E = adj.locals_named("exp_idx")
    if len(S) != 1 or len(E) != 1:
        raise AnchorMissing("adjust_token_stream: cannot identify stream_idx / exp_idx")
    for v in variants:
        blocks = arm_blocks(adj, d, arms, v, variants.index(v))
        ds, de = delta(adj, blocks, S[0], "Add"), delta(adj, blocks, E[0], "Add")
        edits = [c.path.split("::")[-1] for c in adj.calls() if c.bb in blocks and (c.path or "").startswith(ll.TS)
                 and c.path.split("::")[-1] in ("replace_token_type_at", "insert_token_at", "remove_token_at")]
        want = WANT_APPLY[v]
        ok = (ds, de) == want[:2] and edits == ([want[2]] if want[2] else [])
        # the edit is applied at stream_idx with expected[exp_idx]
        for c in adj.calls():
            if c.bb in blocks and (c.path or "").startswith(ll.TS) and c.path.split("::")[-1] in edits:
                t = operand_term(adj, c.args[1])
                ok = ok and t[0] in ("path", "local") and t[1] == S[0]
        ctx.check(ok, "R31.1", "apply|%s" % v,
                  "%s: stream_idx+%d, exp_idx+%d, edit %s at stream_idx" % (v, ds, de, edits or "none"),
                  "adjust_token_stream arm %s advances (stream_idx, exp_idx) by (%d, %d) and performs %s; expected %s"
                  % (v, ds, de, edits, want), where(adj, adj.line_of_block(arms[v])))
        # agreement with the back-track: an expected symbol is consumed iff j is decremented
        ctx.check((de == 1) == (WANT_BACK[v][1] == 1) or v == "Delete", "R31.1", "agree|%s" % v,
                  "exp_idx advances exactly when the back-track consumes an expected symbol",
                  "exp_idx advance and back-track disagree for %s" % v, where(adj), nontrivial=False)
    # the back-track collects the operations from the end: the script must be reversed exactly once before it is returned
    revs = [c for c in lev.calls() if (c.path or "").split("::")[-1] == "reverse" and "EditOp" in (c.self_ty or "")]
    dom = cfg.Dom(lev)
    loop = cfg.loop_containing(lev, d if False else ms_back[0], innermost=False) if False else None
    rets = lev.return_blocks()
    ok = len(revs) == 1 and revs[0].bb not in (cfg.loop_containing(lev, back_d, innermost=False) or (0, set(), []))[1]
    ctx.check(ok, "R31.1", "backtrack|reversed-once",
              "the collected operations are reversed exactly once after the back-track loop",
              "the back-tracked operations are not reversed exactly once after the loop (%d reverse calls): the script would "
              "be applied back to front" % len(revs), where(lev))
