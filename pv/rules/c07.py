"""C07 Lookahead automata encode exactly the lookahead sets - thin: encoding contracts of the compiled automaton.

R07.1 AdjacencyList::as_compiled_dfa: every path to return passes a sort of the transition vector whose key closure
      reads `from_state` then `term` (the order LookaheadDFA::eval relies on: it stops at the first foreign
      from-state after a match and at the first greater terminal).
R07.2 merge keys of minimisation: accepting states are grouped by exactly their production number; non-accepting
      states (production == INVALID_PROD) are grouped by their complete Neighbors value.
R07.3 union: LookaheadDFA::unite reads every field of `other` (states, transitions, k) and the k of the union is
      at least other.k - the runtime reads exactly k look-ahead tokens, so a union that keeps the k of its first
      operand cuts longer look-ahead strings of later productions off.
R07.4 k is carried through every conversion (LookaheadDFA -> CompiledDFA -> AdjacencyList -> CompiledDFA -> render).
R07.5 a state rename rewrites the references in every state (whole-map iteration).
R07.6 calculate_lookahead_dfas unites a production's automaton with the automaton looked up by the non-terminal's name
      (never by position) and never overwrites a stored automaton.
Trie construction and the correctness of minimisation are algorithmic and NOT decided.
"""
from .. import cfg
from ..dataflow import operand_term, raw_operand_place, raw_place, single_def, forward_derived
from ..facts import AnchorMissing
from .common import PA, where, short, all_places, closure_of_arg_any

CRATES = ["parol.lib"]

META = {
    "explanation": "Decides writer/reader contracts of the compiled look-ahead automaton: sorted by (from_state, term) "
                   "on every path, merge keys of the minimisation, and that the look-ahead depth k survives union and "
                   "every conversion. These are necessary for the runtime (which reads k tokens and scans the sorted "
                   "table) to see the automaton the analysis computed.",
}

ADJ = "parol::analysis::compiled_la_dfa::adjacency_list::AdjacencyList"
CT = "parol::analysis::compiled_la_dfa::CompiledTransition"
LADFA = "parol::analysis::lookahead_dfa::LookaheadDFA"
CDFA = "parol::analysis::compiled_la_dfa::CompiledDFA"
GROUP_BY = "parol::utils::group_by"
INVALID_PROD = "parol_runtime::parser::INVALID_PROD"


def fields_in_order(body, adt):
    """field names of `adt` in the order they are first read in body"""
    out = []
    for bi, kind, p, line in all_places(body):
        for e in p[1:]:
            if isinstance(e, list) and e[0] == "f" and e[3] == adt and e[2] not in out and kind == "r":
                out.append(e[2])
    return out


def check(ctx):
    facts = ctx.facts()
    # ---------------------------------------------------------------- R07.1
    b = facts.body(ADJ + "::as_compiled_dfa")
    sorts = [c for c in b.calls() if (c.path or "").split("::")[-1] in ("sort_by_key", "sort_by", "sort_unstable_by_key",
                                                                          "sort_unstable_by", "sort_by_cached_key")
             and "CompiledTransition" in (c.self_ty or "")]
    if not sorts:
        ctx.bad("R07.1", "as_compiled_dfa|sorted", "as_compiled_dfa no longer sorts the transitions: LookaheadDFA::eval "
                "stops scanning at the first foreign from-state / greater terminal and would miss transitions", where(b))
    else:
        s = sorts[0]
        rets = b.return_blocks()
        unsorted = cfg.reachable_from(b, 0, avoid_blocks=[s.bb]) & set(rets)
        ctx.check(not unsorted, "R07.1", "as_compiled_dfa|sort-on-every-path",
                  "every path to return passes the sort", "a path returns the transitions unsorted", where(b, s.line))
        cl = closure_of_arg_any(facts, b, s)
        order = fields_in_order(cl, CT) if cl is not None else []
        ctx.check(order[:2] == ["from_state", "term"] and "to_state" not in order[:2], "R07.1", "as_compiled_dfa|sort-key",
                  "the sort key is (from_state, term)",
                  "the transitions are sorted by %s instead of (from_state, term), the order the runtime scan relies on"
                  % order, where(cl if cl is not None else b))
        # the sorted vector is the one returned
        aggs = [(bi, rv, line) for bi, si, p, rv, line, mac in b.assigns() if rv[0] == "agg" and rv[2] == CDFA]
        okv = False
        if aggs:
            names = [f for f, _t in facts.adt_fields(CDFA)]
            ti = names.index("transitions")
            rp = raw_operand_place(b, aggs[0][1][4][ti])
            sp = raw_operand_place(b, s.args[0])
            # receiver of sort: &mut *deref_mut(&mut transitions)
            d = single_def(b, sp[0]) if sp else None
            while d and d[0] == "call" and d[3].names() & {"std::ops::DerefMut::deref_mut"}:
                sp = raw_operand_place(b, d[3].args[0])
                d = single_def(b, sp[0]) if sp else None
            okv = bool(rp and sp and rp[0] == sp[0])
        ctx.check(okv, "R07.1", "as_compiled_dfa|returns-sorted-vector", "the CompiledDFA is built from the sorted vector",
                  "the CompiledDFA is not built from the vector that was sorted", where(b))

    # ---------------------------------------------------------------- R07.2
    mn = facts.body(ADJ + "::minimize")
    gb = mn.calls_to(GROUP_BY)
    if len(gb) != 1:
        raise AnchorMissing("minimize: expected one group_by call")
    cl = closure_of_arg_any(facts, mn, gb[0])
    key_ok = False
    if cl is not None:
        # closure returns field 1 of its tuple argument
        for bi, si, p, rv, line, mac in cl.assigns():
            if p == [0] and rv[0] == "use" and rv[1][0] in ("c", "m"):
                rp = raw_place(cl, rv[1][1])
                fs = [e for e in rp[1:] if isinstance(e, list) and e[0] == "f"]
                key_ok = rp[0] == 2 and len(fs) == 1 and fs[0][1] == 1
    ctx.check(key_ok, "R07.2", "minimize|accepting-states-grouped-by-production",
              "accepting states are grouped by exactly their production number (tuple field 1)",
              "accepting states are merged by a key that is not their production number: two states predicting different "
              "productions could be merged", where(cl if cl is not None else mn))
    # the accepting filter compares with INVALID_PROD
    flt = [c for c in facts.closures_of(mn) if any(rv[0] == "bin" and rv[1] in ("Ne", "Eq") and
                                                   any(o[0] == "k" and (o[3] or "").endswith("INVALID_PROD") and o[2] == -1 for o in (rv[2], rv[3]))
                                                   for _b, _s, _p, rv, _l, _m in c.assigns())]
    ctx.check(bool(flt), "R07.2", "minimize|accepting-filter", "accepting = production != INVALID_PROD",
              "minimize no longer selects accepting states by comparing with INVALID_PROD", where(mn))
    ce = facts.body(ADJ + "::combine_equivalent_states")
    gb2 = ce.calls_to(GROUP_BY)
    if len(gb2) != 1:
        raise AnchorMissing("combine_equivalent_states: expected one group_by call")
    cl2 = closure_of_arg_any(facts, ce, gb2[0])
    k2 = False
    if cl2 is not None:
        for c in cl2.calls():
            if "std::clone::Clone::clone" in c.names() and "Neighbors" in (c.self_ty or "") and c.dest == [0]:
                rp = raw_operand_place(cl2, c.args[0])
                fs = [e for e in rp[1:] if isinstance(e, list) and e[0] == "f"] if rp else []
                k2 = bool(rp) and rp[0] == 2 and len(fs) == 1 and fs[0][1] == 1
    ctx.check(k2, "R07.2", "combine_equivalent_states|grouped-by-all-neighbors",
              "non-accepting states are grouped by their complete Neighbors value",
              "non-accepting states are merged by something coarser than their complete successor list", where(ce))
    sel = [c for c in facts.closures_of(ce) if any(rv[0] == "bin" and rv[1] == "Eq" and
                                                   any(o[0] == "k" and (o[3] or "").endswith("INVALID_PROD") and o[2] == -1 for o in (rv[2], rv[3]))
                                                   for _b, _s, _p, rv, _l, _m in c.assigns())]
    ctx.check(bool(sel), "R07.2", "combine_equivalent_states|only-non-accepting",
              "only states whose production is INVALID_PROD are candidates",
              "combine_equivalent_states no longer restricts itself to non-accepting states", where(ce))

    # ---------------------------------------------------------------- R07.3
    un = facts.body(LADFA + "::unite")
    decl = [f for f, _t in facts.adt_fields(LADFA)]
    read = set()
    for bb in facts.family(un):
        for bi, kind, p, line in all_places(bb):
            if kind != "r":
                continue
            rp = raw_place(bb, p)
            # reads through `other` (argument 2 of unite; captured as upvar in closures is not used today)
            if bb is un and rp[0] == 2:
                for e in rp[1:]:
                    if isinstance(e, list) and e[0] == "f" and e[3] == LADFA:
                        read.add(e[2])
    for f in decl:
        ctx.check(f in read, "R07.3", "unite|reads-other.%s" % f,
                  "unite reads other.%s" % f,
                  "LookaheadDFA::unite never reads other.%s: the union ignores that part of its second operand%s"
                  % (f, " (the runtime then reads too few look-ahead tokens for productions whose look-ahead strings are "
                        "longer than those of the first alternative)" if f == "k" else ""), where(un))
    # result.k is written from a max/maximum involving other.k
    wk = False
    for bi, si, p, rv, line, mac in un.assigns():
        fs = [e for e in p[1:] if isinstance(e, list) and e[0] == "f"]
        if fs and fs[-1][2] == "k" and fs[-1][3] == LADFA:
            t = operand_term(un, rv[1]) if rv[0] == "use" else None
            if t and t[0] == "call" and (t[1].path or "").split("::")[-1] in ("max", "cmp_max"):
                wk = True
    for c in un.calls():
        if (c.path or "").endswith("cmp::max") or (c.path or "").endswith("Ord::max"):
            args = [raw_operand_place(un, a) for a in c.args]
            if any(a and a[0] == 2 and any(isinstance(e, list) and e[0] == "f" and e[2] == "k" for e in a[1:]) for a in args):
                wk = wk or True
    ctx.check(wk, "R07.3", "unite|k-is-max", "the union's k is max(self.k, other.k)",
              "the union does not take the maximum of both look-ahead depths", where(un))

    # ---------------------------------------------------------------- R07.4
    convs = [(CDFA + "::from_lookahead_dfa", CDFA, 1), (ADJ + "::as_compiled_dfa", CDFA, 1)]
    frm = [b2 for b2 in facts.in_crate(PA) if b2.path.endswith("as std::convert::From<parol::analysis::compiled_la_dfa::CompiledDFA>>::from")]
    n = 0
    for b2 in [facts.body_by_path_opt(p) for p, _a, _i in convs] + frm:
        if b2 is None:
            continue
        for bi, si, p, rv, line, mac in b2.assigns():
            if rv[0] == "agg" and rv[2] in (CDFA, ADJ):
                names = [f for f, _t in facts.adt_fields(rv[2])]
                ki = names.index("k")
                rp = raw_operand_place(b2, rv[4][ki])
                ok = bool(rp) and rp[0] == 1 and any(isinstance(e, list) and e[0] == "f" and e[2] == "k" for e in rp[1:])
                n += 1
                ctx.check(ok, "R07.4", "%s|k-copied" % short(b2.path), "k is copied from the source automaton",
                          "the conversion does not carry the look-ahead depth k of its source", where(b2, line))
    ctx.require_floor("R07.4", "k_conversions", n, 2)
    renames_cover_all_states(ctx, facts)
    union_is_keyed_by_non_terminal(ctx, facts)


def renames_cover_all_states(ctx, facts):
    """R07.5 (added after seed C07-b) renaming / merging a state rewrites the references to it in *every* state: wherever the
    minimiser calls Neighbors::rename_neighbor in a loop, the loop ranges over all entries of the adjacency list (values_mut /
    iter_mut of the whole map), not over a key range, a filtered or truncated iterator.  After states were merged a state can be
    referenced from higher-numbered states as well; a reference that is not rewritten leads into whatever state gets that number
    later - the automaton predicts another production."""
    from ..dataflow import operand_term
    from .. import cfg
    n = 0
    PARTIAL = {"range", "range_mut", "filter", "take", "skip", "take_while", "skip_while", "step_by", "split_off", "first_key_value",
               "last_key_value", "get", "get_mut", "nth"}
    for b in facts.in_crate(PA):
        if not (b.module or "").startswith("parol::analysis::compiled_la_dfa"):
            continue
        for c in b.calls():
            if (c.path or "").split("::")[-1] != "rename_neighbor":
                continue
            loop = cfg.loop_containing(b, c.bb)
            if loop is None:
                continue
            n += 1
            # the iterator advanced in this loop
            nexts = [x for x in b.calls() if x.bb in loop[1] and (x.path or "").split("::")[-1] == "next"]
            chain = []
            ok = False
            for nx in nexts:
                t = operand_term(b, nx.args[0]) if nx.args else ("unknown",)
                hops = 0
                while hops < 10:
                    hops += 1
                    if t[0] == "proj":
                        t = t[1]
                        continue
                    if t[0] == "call":
                        chain.append((t[1].path or "").split("::")[-1])
                        t = operand_term(b, t[1].args[0]) if t[1].args else ("unknown",)
                        continue
                    break
                if t[0] == "path" and "list" in t[2] and not (set(chain) & PARTIAL) and \
                        (set(chain) & {"values_mut", "iter_mut", "values", "iter", "into_iter"}):
                    ok = True
            ctx.check(ok, "R07.5", "%s|rename-covers-all-states" % short(b.path),
                      "rename_neighbor is applied to every entry of the adjacency list (%s)" % ".".join(reversed(chain)),
                      "%s applies rename_neighbor only to a part of the adjacency list (%s): references from the other states keep "
                      "the old state number" % (short(b.path), ".".join(reversed(chain)) or "no whole-map iterator found"),
                      where(b, c.line))
    ctx.require_floor("R07.5", "rename_loops", n, 1)


KEYED = {"remove", "remove_entry", "get", "get_mut", "entry", "get_key_value", "contains_key", "find", "position", "find_map"}
POSITIONAL = {"last", "last_mut", "first", "first_mut", "pop", "pop_back", "pop_front", "back", "back_mut", "front", "front_mut",
              "peek", "peek_mut", "split_last", "split_last_mut", "split_first", "split_first_mut"}
MAPS = ("std::collections::BTreeMap", "std::collections::HashMap", "indexmap::")


def origin_chain(body, op, depth=14):
    """[(method name, self type)] of the calls a value is obtained through, nearest first (receiver chain; projections,
    borrows, Option/Result payload patterns and copies are looked through)"""
    chain = []
    t = operand_term(body, op)
    hops = 0
    while hops < depth:
        hops += 1
        if t[0] == "proj":
            t = t[1]
            continue
        if t[0] == "call":
            c = t[1]
            chain.append(((c.path or "").split("::")[-1], c.self_ty or "", c))
            if not c.args:
                break
            t = operand_term(body, c.args[0])
            continue
        if t[0] == "path" and t[1] > body.nargs:
            # a pattern binding / user variable: follow its single whole definition, if any
            ds = [d for d in body.defs(t[1]) if d[0] in ("assign", "call")]
            if len(ds) == 1 and ds[0][0] == "call":
                t = ("call", ds[0][3])
                continue
            if len(ds) == 1 and ds[0][3][0] in ("use", "ref", "cfd") and hops < depth:
                from ..dataflow import rvalue_term
                t2 = rvalue_term(body, ds[0][3])
                if t2 != t:
                    t = t2
                    continue
        break
    return chain, t


def union_is_keyed_by_non_terminal(ctx, facts):
    """R07.6 (added after seed C07-c) calculate_lookahead_dfas folds the automaton of every production into the automaton of
    its non-terminal.  The productions of one non-terminal are not contiguous in general (the k-tuples are ordered by production
    number and the grammar transformations append helper productions at the end), so the automaton to unite with must be looked
    up by the non-terminal's name in the whole accumulator:
      a) the receiver of every LookaheadDFA::unite call comes from a keyed lookup (map remove/get/entry, or a find over the
         accumulator), never from a positional accessor (last, first, pop ...) - "the previous production" is not "the same
         non-terminal";
      b) every insert into a map String -> LookaheadDFA is preceded, on every path, by a keyed lookup of the same map (so an
         existing automaton was taken out and united, not overwritten);
      c) such a map is not collected from a sequence of pairs (FromIterator keeps only the last pair of a key)."""
    root = facts.body("parol::analysis::k_decision::calculate_lookahead_dfas")
    fam = facts.family(root)
    n = 0
    for b in fam:
        dom = None
        for c in b.calls():
            last = (c.path or "").split("::")[-1]
            if c.path == LADFA + "::unite" and c.args:
                n += 1
                chain, leaf = origin_chain(b, c.args[0])
                names = [(nm, st) for nm, st, _c in chain]
                pos = next((i for i, (nm, st) in enumerate(names) if nm in POSITIONAL and ("Vec" in st or st.startswith("[") or "Deque" in st
                                                                                          or "Peekable" in st)), None)
                key = next((i for i, (nm, st) in enumerate(names) if nm in KEYED), None)
                shown = " <- ".join(nm for nm, _s in names) or "a local"
                if pos is not None and (key is None or pos < key):
                    ctx.bad("R07.6", "calculate_lookahead_dfas|union-partner-looked-up-by-position",
                            "the automaton a production's automaton is united with is obtained by position (%s): productions of one "
                            "non-terminal that are not adjacent in production order get separate automata, and only one of them "
                            "survives in the result map - the others' productions are never predicted" % shown, where(b, c.line))
                else:
                    ctx.ok("R07.6", "calculate_lookahead_dfas|union-partner-keyed", "unite's receiver: %s" % shown, where(b, c.line))
            if last == "insert" and any(m in (c.self_ty or "") for m in MAPS) and "LookaheadDFA>" in (c.self_ty or "") \
                    and "String" in (c.self_ty or ""):
                dom = dom or cfg.Dom(b)
                mp = raw_operand_place(b, c.args[0])
                looked = False
                for c2 in b.calls():
                    if (c2.path or "").split("::")[-1] in KEYED and (c2.self_ty or "") == (c.self_ty or "") and c2.bb != c.bb \
                            and dom.dominates(c2.bb, c.bb):
                        mp2 = raw_operand_place(b, c2.args[0])
                        if mp and mp2 and mp[0] == mp2[0]:
                            looked = True
                ctx.check(looked, "R07.6", "calculate_lookahead_dfas|insert-after-keyed-lookup",
                          "the insert is dominated by a keyed lookup of the same map",
                          "an automaton is inserted into the result map without looking the non-terminal up first: an automaton "
                          "already stored for it (from an earlier production) is overwritten", where(b, c.line))
            if last in ("collect", "from_iter", "extend") and "LookaheadDFA" in (c.self_ty or "") and \
                    ("vec::IntoIter" in (c.self_ty or "") or "slice::Iter" in (c.self_ty or "")) and \
                    "BTreeMap<std::string::String" in (b.local_ty(c.dest[0]) or ""):
                ctx.bad("R07.6", "calculate_lookahead_dfas|map-collected-from-sequence",
                        "the result map is collected from a sequence of (non-terminal, automaton) pairs: when a non-terminal occurs "
                        "twice only its last automaton is kept", where(b, c.line))
    ctx.require_floor("R07.6", "unite_calls", n, 1)
