"""C23 The typed AST delivered to the user mirrors the input - thin: only the order of repetitions, as an agreement between
two generators.

The AST is built by generated code that does not exist at analysis time; what it contains for a given grammar and sentence is
NOT decided (DESIGN section 5).  One clause - "repetitions hold their items in input order" - rests on an agreement between two
places of the generator that can be read off their code:
R23.1 per grammar type V, the canonicalisation of `{ a }` (eliminate_single_rep) builds the list non-terminal R' either
      right-recursive (R' -> a R' : the recursive symbol is pushed *last*) or left-recursive (R' -> R' a : inserted *first*), the
      same way in its two cases; the adapter generator (UserTraitGenerator::generate_stack_pops) (a) makes the list argument of
      the AddToCollection action mutable at exactly that position (the arguments are popped in reverse order, so index 0 is
      the last member), and (b) reverses the collected vector at the RepetitionAnchor exactly for the grammar types whose lists
      are right-recursive: with right recursion the innermost - last - item is reduced first, so the vector is filled back to
      front; with left recursion it is filled in input order.
      A disagreement (e.g. reversing for LALR(1), or not reversing for LL(k)) delivers every repetition in reverse order.
R23.2 no order-changing operation on vectors of symbol ids in the type deduction (members are declared in grammar order).
"""
from .. import cfg
from ..dataflow import operand_term, raw_operand_place, single_def
from ..facts import AnchorMissing
from .common import PA, where, short, only_via_edge

CRATES = ["parol.lib"]
META = {
    "explanation": "Decides one necessary condition of C23's order clause: the recursion direction chosen for repetition lists per "
                   "grammar type in the canonicalisation agrees with the position of the mutable list argument and with the "
                   "reversal at the repetition anchor in the adapter generator. Everything else about the generated AST "
                   "(generated code, all grammars, all sentences) is NOT decided by this family.",
}
GT = "parol::parser::parol_grammar::GrammarType"
ESR = "parol::transformation::canonicalization::eliminate_single_rep"
GSP = "parol::generators::user_trait_generator::UserTraitGenerator::generate_stack_pops"
FACTOR = "parol::parser::parol_grammar::Factor"


def _gt_switches(body, gt_local):
    out = []
    for d in range(len(body.blocks)):
        t = body.term(d)
        if t[0] != "switch":
            continue
        for s in body.stmts(d):
            if s[0] == "a" and s[2][0] == "disc" and t[1][0] in ("c", "m") and t[1][1] == s[1] and s[2][1] == [gt_local]:
                out.append(d)
    return out


def _arms(body, d, variants):
    """{variant: blocks reached only through that variant's edge}"""
    t = body.term(d)
    out = {}
    edges = {v: tg for v, tg in t[2]}
    for i, name in enumerate(variants):
        if i in edges:
            tg, val = edges[i], i
        else:
            tg, val = t[3], None
        blocks = {x for x in cfg.reachable_from(body, tg, avoid_blocks=[d]) if only_via_edge(body, d, {val}, x)}
        out[name] = blocks
    return out


def check(ctx):
    facts = ctx.facts()
    variants = [v["name"] for v in facts.adt(GT)["variants"]]
    # ---------------------------------------------------------------- canonicalisation
    esr = facts.body(ESR)
    gts = [i for i in range(1, esr.nargs + 1) if esr.local_ty(i) == GT]
    if len(gts) != 1:
        raise AnchorMissing("eliminate_single_rep has no GrammarType parameter")
    sws = _gt_switches(esr, gts[0])
    if len(sws) < 2:
        raise AnchorMissing("eliminate_single_rep: expected two matches on the grammar type (cases 1 and 2), found %d" % len(sws))
    pos = {}
    for d in sws:
        arms = _arms(esr, d, variants)
        for v, blocks in arms.items():
            kinds = []
            for c in esr.calls():
                if c.bb not in blocks:
                    continue
                nm = (c.path or "").split("::")[-1]
                st = c.self_ty or ""
                is_list = ("Vec<" in st and "Factor" in st) or st.endswith("parol_grammar::Alternation")
                if nm == "push" and is_list:
                    kinds.append("last")
                elif nm == "insert" and is_list and len(c.args) > 2:
                    ix = operand_term(esr, c.args[1])
                    kinds.append("first" if ix[0] == "const" and ix[2] == 0 else "insert-at-?")
            for bi, si, p, rv, line, mac in esr.assigns():
                if bi in blocks and rv[0] == "agg" and rv[1] == "array" and len(rv[4]) == 2:
                    els = []
                    for o in rv[4]:
                        rp = raw_operand_place(esr, o)
                        dd = single_def(esr, rp[0]) if rp else None
                        if dd and dd[0] == "assign" and dd[3][0] == "agg" and dd[3][2] == FACTOR:
                            els.append(dd[3][3])
                        elif dd and dd[0] == "call" and (dd[3].path or "").endswith("default_non_terminal"):
                            els.append("NT")
                        else:
                            els.append("?")
                    if "NT" in els and "Group" in els:
                        kinds.append("last" if els == ["Group", "NT"] else "first")
            if kinds:
                pos.setdefault(v, []).append((kinds, esr.line_of_block(d)))
    for v in variants:
        ks = [k for kinds, _l in pos.get(v, []) for k in kinds]
        ctx.check(len(pos.get(v, [])) >= 2 and len(set(ks)) == 1 and ks[0] in ("last", "first"), "R23.1",
                  "eliminate_single_rep|%s|one-recursion-direction" % v,
                  "for %s the list non-terminal is placed %s in both cases of eliminate_single_rep" % (v, ks[0] if ks else "?"),
                  "for %s the two cases of eliminate_single_rep place the recursive list non-terminal differently (%s): items of "
                  "one repetition form are collected in another order than those of the other" % (v, pos.get(v)), where(esr))
    # Alternation::push / insert are thin wrappers of Vec::push / Vec::insert(idx, ..) on the factor list
    for meth, inner in (("push", "push"), ("insert", "insert")):
        mb = facts.body_by_path_opt("parol::parser::parol_grammar::Alternation::" + meth)
        if mb is None:
            continue
        cs = [c for c in mb.calls() if (c.path or "").split("::")[-1] == inner and "Vec<" in (c.self_ty or "")]
        okw = len(cs) == 1
        if okw and meth == "insert":
            ix = raw_operand_place(mb, cs[0].args[1])
            okw = ix == [2]
        ctx.check(okw, "R23.1", "Alternation::%s|delegates-to-vec" % meth, "Alternation::%s forwards to Vec::%s" % (meth, inner),
                  "Alternation::%s does not simply forward to Vec::%s (with its own index)" % (meth, inner), where(mb), nontrivial=False)
    direction = {v: (set(k for kinds, _l in pos.get(v, []) for k in kinds) or {"?"}).pop() for v in variants}
    # ---------------------------------------------------------------- adapter generator
    gsp = facts.body(GSP)
    ggt = [i for i in range(1, gsp.nargs + 1) if gsp.local_ty(i) == GT]
    if len(ggt) != 1:
        raise AnchorMissing("generate_stack_pops has no GrammarType parameter")
    G = ggt[0]
    reversed_iter = any("std::iter::Rev<" in (c.self_ty or "") or "Rev<" in (c.callee.get("pa") or "")
                        for c in gsp.calls() if (c.path or "").split("::")[-1] in ("next", "enumerate"))
    # (b) reverse flag
    va = [c for c in gsp.calls() if (c.path or "").split("::")[-1] == "vec_anchor"]
    mu = [c for c in gsp.calls() if (c.path or "").split("::")[-1] == "popped_item_is_mutable"]
    if len(va) != 1 or len(mu) != 1:
        raise AnchorMissing("generate_stack_pops: builder calls vec_anchor / popped_item_is_mutable not found")
    rp = raw_operand_place(gsp, va[0].args[1])
    found_cmp = False
    conds = []
    defaults = []
    for dd in gsp.defs(rp[0]) if rp else []:
        if dd[0] == "assign" and dd[3][0] == "use" and dd[3][1][0] == "k" and isinstance(dd[3][1][2], bool):
            defaults.append(dd[3][1][2])
        if dd[0] == "call":
            c = dd[3]
            nm = (c.path or "").split("::")[-1]
            if nm in ("eq", "ne") and GT in (c.self_ty or ""):
                consts = [operand_term(gsp, a) for a in c.args]
                names = [t[2] for t in consts if t[0] == "const" and isinstance(t[2], str)]
                if names:
                    found_cmp = True
                    conds.append((nm, names[0]))
    # the grammar-type tests that guard (dominate) the last one belong to the same `&&` chain
    from .common import guards_on_all_paths
    last_blocks = [dd[1] for dd in gsp.defs(rp[0]) if dd[0] == "call"] if rp else []
    for lb in last_blocks:
        for a, k, truth in guards_on_all_paths(gsp, lb):
            if k and k[0] == "call" and (k[1].path or "").split("::")[-1] in ("eq", "ne") and GT in (k[1].self_ty or ""):
                names = [t[2] for t in (operand_term(gsp, x) for x in k[1].args) if t[0] == "const" and isinstance(t[2], str)]
                if names:
                    nm = (k[1].path or "").split("::")[-1]
                    # the guard holds with `truth`: eq true / ne false pin the variant, the others exclude it
                    conds.append((nm if truth else ("ne" if nm == "eq" else "eq"), names[0]))
    rev = {}
    for v in variants:
        rev[v] = bool(conds) and all((v == n) if nm == "eq" else (v != n) for nm, n in conds)
    # the comparison with RepetitionAnchor must guard it
    anchor_cmp = any((c.path or "").split("::")[-1] == "eq" and "SymbolAttribute" in (c.self_ty or "") and
                     any(t[0] == "const" and t[2] == "RepetitionAnchor" for t in (operand_term(gsp, a) for a in c.args))
                     for c in gsp.calls())
    ctx.check(found_cmp and anchor_cmp, "R23.1", "generate_stack_pops|reverse-flag-shape",
              "vec_anchor is (sem == RepetitionAnchor) && (grammar type test)",
              "generate_stack_pops does not compute vec_anchor from the RepetitionAnchor attribute and a grammar-type test",
              where(gsp, va[0].line))
    # (a) mutable position per grammar type
    mrp = raw_operand_place(gsp, mu[0].args[1])
    M = mrp[0] if mrp else None
    msw = _gt_switches(gsp, G)
    mpos = {}
    for d in msw:
        arms = _arms(gsp, d, variants)
        for v, blocks in arms.items():
            for bi, si, p, rv, line, mac in gsp.assigns():
                if bi in blocks and p == [M] and rv[0] == "bin" and rv[1] == "Eq":
                    b2 = operand_term(gsp, rv[3])
                    a2 = operand_term(gsp, rv[2])
                    zero = any(t[0] == "const" and t[2] == 0 for t in (a2, b2))
                    minus1 = any(t[0] in ("bin", "proj") for t in (a2, b2))
                    idx = "index-0" if zero else "index-last" if minus1 else "?"
                    # members are visited in reverse: index 0 is the last member
                    where_is = {"index-0": "last" if reversed_iter else "first",
                                "index-last": "first" if reversed_iter else "last"}.get(idx, "?")
                    mpos[v] = where_is
    for v in variants:
        want = direction.get(v)
        ctx.check(mpos.get(v) == want and want in ("last", "first"), "R23.1", "%s|mutable-list-argument-position" % v,
                  "for %s the list argument that receives the new item is the %s member, where the canonicalisation puts the "
                  "recursive list non-terminal" % (v, want),
                  "for %s the canonicalisation places the recursive list non-terminal %s, but generate_stack_pops makes the %s "
                  "member the mutable list argument: the AddToCollection action pushes into the wrong argument"
                  % (v, want, mpos.get(v)), where(gsp, mu[0].line))
        ctx.check(rev.get(v) == (want == "last"), "R23.1", "%s|reverse-iff-right-recursive" % v,
                  "for %s lists are %s-recursive and the collected vector is %sreversed at the repetition anchor"
                  % (v, "right" if want == "last" else "left", "" if rev.get(v) else "not "),
                  "for %s the list non-terminal is %s-recursive but the adapter %s the collected vector at the repetition anchor: "
                  "every repetition of the AST is delivered in reverse input order"
                  % (v, "right" if want == "last" else "left", "reverses" if rev.get(v) else "does not reverse"),
                  where(gsp, va[0].line))
    ctx.require_floor("R23.1", "grammar_types", len(variants), 2)
    member_order_preserved(ctx, facts)


ORDER_CHANGING = {"swap_remove", "swap", "reverse", "rotate_left", "rotate_right", "sort", "sort_by", "sort_by_key", "sort_unstable",
                  "sort_unstable_by", "sort_unstable_by_key", "select_nth_unstable"}
ORDER_TABLE = {
    "parol|generators::symbol_table|SymbolTable::find_type_cycles|sort":
        "sorts the ids of one detected type cycle for a canonical report; not a member / argument list",
}


def member_order_preserved(ctx, facts):
    """R23.2 (added after seed C23-b; reviewed table, expected to stay at its single entry) members of the generated AST types and
    arguments of the semantic actions are kept in grammar order: in the type deduction (grammar_type_generator, symbol_table) no
    order-changing operation (swap_remove, swap, reverse, rotate, sort ..) is applied to a vector of symbol ids.  The user reads
    the AST in declaration order; `swap_remove(0)` instead of `remove(0)` moves the last member to the front."""
    from .common import fn_key
    n = 0
    for b in facts.in_crate(PA):
        if not (b.module or "").startswith(("parol::generators::grammar_type_generator", "parol::generators::symbol_table")):
            continue
        n += 1
        for c in b.calls():
            nm = (c.path or "").split("::")[-1]
            st = c.self_ty or ""
            if nm in ORDER_CHANGING and "SymbolId" in st:
                key = "%s|%s" % (fn_key(b, facts), nm)
                if key in ORDER_TABLE:
                    ctx.ok("R23.2", key, "reviewed: " + ORDER_TABLE[key], where(b, c.line), nontrivial=False)
                else:
                    ctx.bad("R23.2", key, "%s applies %s to a vector of symbol ids: members / arguments no longer follow the order of "
                            "the grammar symbols, the AST read in declaration order does not mirror the input" % (short(b.path), nm),
                            where(b, c.line))
    ctx.require_floor("R23.2", "bodies_scanned", n, 50)
