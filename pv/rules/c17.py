"""C17 Skipped tokens never influence parsing; comments are delivered once, in order.

R17.1 who_may_call(Token::is_skip_token) in parol_runtime: only Token::is_effectively_skip_token and
      TokenIter::token_from_match (token numbering).  Every other classification must use the effective
      predicate because a token skipped through a state's %skip list carries a user token type.
R17.2 TokenStream::read_tokens: the scanner mode is read *before* the token (same loop iteration),
      is_state_skip_token gets that mode, its result is stored with set_state_skip before the token enters
      the buffer.
R17.3 who_may_call(UserActionsTrait::on_comment): only the two handle_additional_tokens; each call is
      control dependent on is_comment_token() (and `?` plumbing) only - in particular not on
      trim_parse_tree - and receives elements of take_skip_tokens().
R17.5 LR: skipped tokens are flushed before every table action, independent of the trim option.
R17.4 the built-in skip classification is a range test on the runtime's token constants (no arithmetic / bit tests on the
      token type).
"""
from .. import cfg
from ..dataflow import forward_derived, raw_operand_place
from ..facts import AnchorMissing
from .common import (RT, where, short, fn_key, callers_of, who_may_call, control_deps,
                     transitive_control_deps, control_dependence_no_errors)

CRATES = ["parol_runtime.lib"]

META = {
    "explanation": "Decides three structural clauses of C17 on parol_runtime's MIR: (1) the raw skip predicate "
                   "Token::is_skip_token is consulted only where the state-specific skip flag is irrelevant, "
                   "everything else uses the effective predicate; (2) the state-skip flag is computed from the "
                   "scanner mode the token was read in and is stored before the token is buffered; (3) on_comment "
                   "is called exactly from the two skip-token hand-over points and depends on nothing but "
                   "is_comment_token. Not decided: the behaviour of user actions, scnr2's mode tracking.",
}

IS_SKIP = "parol_runtime::lexer::token::Token::is_skip_token"
IS_EFF = "parol_runtime::lexer::token::Token::is_effectively_skip_token"
IS_COMMENT = "parol_runtime::lexer::token::Token::is_comment_token"
READ_TOKENS = "parol_runtime::lexer::token_stream::TokenStream::read_tokens"
ON_COMMENT = "parol_runtime::parser::user_access::UserActionsTrait::on_comment"
TAKE_SKIP = "parol_runtime::lexer::token_stream::TokenStream::take_skip_tokens"

ALLOWED_RAW_SKIP = {
    # root function -> reason
    "parol_runtime::lexer::token::Token::is_effectively_skip_token": "definition of the effective predicate",
    "parol_runtime::lexer::token_iter::TokenIter::token_from_match":
        "token numbering happens before the state-skip flag exists; numbering is not parsing",
}
ALLOWED_ON_COMMENT = {
    "parol_runtime::parser::parser_types::LLKParser::handle_additional_tokens",
    "parol_runtime::lr_parser::parser_types::LRParser::handle_additional_tokens",
}


def check(ctx):
    facts = ctx.facts()
    crates = [RT]
    facts.body(IS_SKIP)
    facts.body(IS_EFF)

    # ---------------------------------------------------------------- R17.1
    sites = who_may_call(ctx, facts, "R17.1", IS_SKIP, set(ALLOWED_RAW_SKIP), crates,
                         "parser/lexer code must classify tokens with is_effectively_skip_token "
                         "(a %skip token of a scanner state has a user token type)", floor=2)
    # the effective predicate really is raw || state_skip
    eff = facts.body(IS_EFF)
    reads_state_skip = any(
        any(isinstance(e, list) and e[0] == "f" and e[2] == "state_skip" for e in p[1:])
        for bi, kind, p, line in __import__("pv.rules.common", fromlist=["all_places"]).all_places(eff) if kind == "r")
    ctx.check(reads_state_skip and bool(eff.calls_to(IS_SKIP)), "R17.1", "is_effectively_skip_token|definition",
              "is_effectively_skip_token consults both is_skip_token() and the state_skip flag",
              "is_effectively_skip_token no longer combines is_skip_token() with the state_skip flag", where(eff))
    n_eff = len(callers_of(facts, [IS_EFF], crates))
    ctx.require_floor("R17.1", "effective_predicate_sites", n_eff, 12)

    # ---------------------------------------------------------------- R17.2
    rt = facts.body(READ_TOKENS)
    dom = cfg.Dom(rt)
    cm = rt.calls_to("parol_runtime::lexer::token_iter::TokenIter::current_mode")
    nx = [c for c in rt.calls_to("std::iter::Iterator::next") if "TokenIter" in c.self_ty]
    iss = rt.calls_to("parol_runtime::lexer::token_stream::TokenStream::is_state_skip_token")
    sss = rt.calls_to("parol_runtime::lexer::token::Token::set_state_skip")
    adds = rt.calls_to("parol_runtime::lexer::token_buffer::TokenBuffer::add")
    if len(cm) != 1 or len(nx) != 1 or len(iss) != 1 or len(sss) != 1 or not adds:
        raise AnchorMissing("read_tokens: expected one call each of current_mode/next/is_state_skip_token/"
                            "set_state_skip and >=1 TokenBuffer::add (found %d/%d/%d/%d/%d)"
                            % (len(cm), len(nx), len(iss), len(sss), len(adds)))
    cm, nx, iss, sss = cm[0], nx[0], iss[0], sss[0]
    loop = cfg.loop_containing(rt, nx.bb)
    if loop is None:
        raise AnchorMissing("read_tokens: token_iter.next() is not in a loop")
    same_iter = cm.bb in loop[1] and dom.dominates(cm.bb, nx.bb) and cm.bb != nx.bb
    ctx.check(same_iter, "R17.2", "read_tokens|mode-before-next",
              "current_mode() (bb%d) is read in the same loop iteration before token_iter.next() (bb%d)" % (cm.bb, nx.bb),
              "the scanner mode is not read before token_iter.next() in the same iteration: the mode a token "
              "was read in is lost after a mode switch", where(rt, cm.line))
    derived = forward_derived(rt, [cm.dest[0]])
    mode_arg = iss.args[2] if len(iss.args) > 2 else None
    ok_mode = mode_arg is not None and mode_arg[0] in ("c", "m") and mode_arg[1][0] in derived
    ctx.check(ok_mode, "R17.2", "read_tokens|mode-flows-to-is_state_skip_token",
              "the scanner-state argument of is_state_skip_token derives from that current_mode() result",
              "is_state_skip_token does not receive the mode read before next()", where(rt, iss.line))
    tok_derived = forward_derived(rt, [nx.dest[0]])
    ty_arg = iss.args[1] if len(iss.args) > 1 else None
    rp = raw_operand_place(rt, ty_arg) if ty_arg else None
    ok_ty = rp is not None and rp[0] in tok_derived and any(
        isinstance(e, list) and e[0] == "f" and e[2] == "token_type" for e in rp[1:])
    ctx.check(ok_ty, "R17.2", "read_tokens|token-type-flows-to-is_state_skip_token",
              "the token-type argument is the token_type field of the token just read",
              "is_state_skip_token is not asked about the token just read", where(rt, iss.line))
    flag_arg = sss.args[1] if len(sss.args) > 1 else None
    ok_flag = flag_arg is not None and flag_arg[0] in ("c", "m") and flag_arg[1] == iss.dest
    ctx.check(ok_flag, "R17.2", "read_tokens|flag-stored",
              "set_state_skip receives exactly the is_state_skip_token result",
              "set_state_skip does not receive the is_state_skip_token result", where(rt, sss.line))
    in_loop_adds = [a for a in adds if a.bb in loop[1]]
    if not in_loop_adds:
        raise AnchorMissing("read_tokens: no TokenBuffer::add inside the read loop")
    for a in in_loop_adds:
        ctx.check(dom.dominates(sss.bb, a.bb), "R17.2", "read_tokens|flag-before-buffer",
                  "set_state_skip (bb%d) dominates tokens.add (bb%d)" % (sss.bb, a.bb),
                  "a token can enter the buffer before its state-skip flag is set", where(rt, a.line))
        # nothing but `is log enabled` decides whether the token is added
        bad = [(x, s) for x, s, k in control_deps(rt, a.bb)
               if x in loop[1] and x != 4 and k is not None and k[0] not in ("qm",) and not _loop_cond(rt, x, nx)]
        ctx.check(not bad, "R17.2", "read_tokens|add-unconditional",
                  "within an iteration tokens.add is executed for every token read (no conditional drop)",
                  "tokens.add is control dependent on %s: a token read from the scanner may be dropped" % bad,
                  where(rt, a.line))

    # ---------------------------------------------------------------- R17.3
    sites = who_may_call(ctx, facts, "R17.3", ON_COMMENT, ALLOWED_ON_COMMENT, crates,
                         "comments must be handed to the user exactly once, from the skip-token hand-over", floor=2)
    for b, c in sites:
        deps = transitive_control_deps(b, c.bb, cd=control_dependence_no_errors(b))
        kinds = []
        ok = True
        saw_comment = False
        for a, s, k in deps:
            if k is None:
                continue
            if k[0] == "call" and IS_COMMENT in k[1].names():
                saw_comment = True
                kinds.append("is_comment_token")
            elif k[0] == "qm":
                kinds.append("?")
            else:
                ok = False
                kinds.append(_kind_str(b, k))
        ctx.check(ok and saw_comment, "R17.3", "%s|on_comment-guard" % fn_key(b, facts),
                  "on_comment is control dependent only on %s" % sorted(set(kinds)),
                  "on_comment is control dependent on %s (must depend on is_comment_token() only; a comment would "
                  "be delivered depending on a parser option or other state)" % sorted(set(kinds)), where(b, c.line))
        root = b.root_fn(facts)
        ts = root.calls_to(TAKE_SKIP)
        ctx.check(len(ts) == 1, "R17.3", "%s|source-take_skip_tokens" % fn_key(b, facts),
                  "the tokens handed to on_comment come from one take_skip_tokens() call (removes them from the buffer: "
                  "delivered once)", "handle_additional_tokens does not draw its tokens from exactly one "
                  "take_skip_tokens() call (found %d)" % len(ts), where(root))
    skip_predicate_is_a_range_test(ctx, facts)
    lr_flush_before_every_action(ctx, facts)


def _loop_cond(body, x, nx):
    """the `while let Some(..)` test itself: a switch on the discriminant of the Option derived from next()"""
    t = body.term(x)
    if t[0] != "switch":
        return False
    derived = forward_derived(body, [nx.dest[0]])
    op = t[1]
    return op[0] in ("c", "m") and op[1][0] in derived


def _kind_str(body, k):
    if k[0] == "field":
        return "field:" + ".".join(k[2])
    if k[0] == "call":
        return "call:" + short(k[1].path or "?")
    if k[0] == "disc-call":
        return "match:" + short(k[1].path or "?")
    return k[0]


def skip_predicate_is_a_range_test(ctx, facts):
    """R17.4 (added after seed C02-b) the built-in skip classification reads the token type only through comparisons with the
    runtime's own token constants (EOI, NEW_LINE .. BLOCK_COMMENT, FIRST_USER_TOKEN, INVALID_TOKEN), through a match on literal
    token types, or through Range(Inclusive)::contains with such bounds - never through arithmetic, shifts or bit tests on the
    token type.  User terminals are numbered upwards from FIRST_USER_TOKEN without bound; a bit-set / modular test that is right
    for the first 64 numbers classifies terminal 65 as whitespace."""
    TOK = "parol_runtime::lexer::token::"
    b = facts.body(TOK + "Token::is_skip_token")
    from ..dataflow import forward_derived
    # locals that carry the token type
    seeds = set()
    for bi, si, p, rv, line, mac in b.assigns():
        if rv[0] == "use" and rv[1][0] in ("c", "m"):
            names = [e[2] for e in rv[1][1][1:] if isinstance(e, list) and e[0] == "f"]
            if names and names[-1] == "token_type" and len(p) == 1:
                seeds.add(p[0])
    if not seeds:
        raise AnchorMissing("Token::is_skip_token does not read token_type")
    der = forward_derived(b, list(seeds), through_calls=lambda c: True)
    bad = []
    ncmp = 0
    for bi, si, p, rv, line, mac in b.assigns():
        if rv[0] == "bin":
            ops = [rv[2], rv[3]]
            touches = any(o[0] in ("c", "m") and o[1][0] in der for o in ops)
            if not touches:
                continue
            if rv[1] in ("Lt", "Le", "Gt", "Ge", "Eq", "Ne"):
                other = [o for o in ops if not (o[0] in ("c", "m") and o[1][0] in der)]
                okc = all(o[0] == "k" and (o[3] or "").startswith(TOK) or o[0] == "k" and isinstance(o[2], int) for o in other)
                # a comparison result derived from token_type is fine; a comparison *with* a computed value is not
                both = all(o[0] in ("c", "m") and o[1][0] in der for o in ops)
                if okc or (both and False):
                    ncmp += 1
                    continue
                # comparison between two derived values (e.g. the bit extracted from a mask == 1)
                bad.append(("%s with a computed operand" % rv[1], line))
            else:
                bad.append((rv[1], line))
        elif rv[0] in ("un", "cast") and rv[-1][0] in ("c", "m") and rv[-1][1][0] in der and rv[0] == "un" and rv[1] not in ("Not",):
            bad.append((rv[1], line))
    for c in b.calls():
        if any(a[0] in ("c", "m") and a[1][0] in der for a in c.args):
            nm = (c.path or "").split("::")[-1]
            if nm == "contains" and "Range" in (c.self_ty or ""):
                ncmp += 1
                continue
            bad.append(("call " + short(c.path or "?"), c.line))
    ctx.check(not bad and ncmp >= 1, "R17.4", "Token::is_skip_token|range-test-on-token-constants",
              "the token type is classified by %d comparison(s) with the runtime's token constants only" % ncmp,
              "Token::is_skip_token computes with the token type (%s) instead of comparing it with the token constants: user "
              "terminal numbers are unbounded, a test that wraps or masks the number treats some user terminal (e.g. number 65) "
              "as a built-in skip token - it never reaches the parser and ends up in the tree as a stray leaf" % bad, where(b))


def lr_flush_before_every_action(ctx, facts):
    """R17.5 (added after seed C17-c) LR: the skipped tokens in front of the look-ahead token are handed over (comments to on_comment,
    tokens to the tree) in every iteration *before* the table action is chosen: a call of handle_additional_tokens dominates the
    match on the action and does not depend on the trim option.  End of input is never shifted - the parse ends with Accept - so a
    flush that only happens in the Shift arm leaves the comments behind the last token to the flush after the loop, which is
    skipped in trim mode: those comments are never delivered."""
    from .. import cfg
    from .common import guards_on_all_paths
    LRP = "parol_runtime::lr_parser::parser_types::LRParser::"
    pi = facts.body(LRP + "parse_into")
    fl = [c for c in pi.calls() if c.path == LRP + "handle_additional_tokens"]
    # the match on the action: a switch on the discriminant of an LRAction value
    sw = None
    for d in range(len(pi.blocks)):
        t = pi.term(d)
        if t[0] != "switch":
            continue
        for s in pi.stmts(d):
            if s[0] == "a" and s[2][0] == "disc" and t[1][0] in ("c", "m") and t[1][1] == s[1] and \
                    "LRAction" in pi.local_ty(s[2][1][0]):
                sw = d
    if sw is None or not fl:
        raise AnchorMissing("LRParser::parse_into: match on LRAction / handle_additional_tokens not found")
    dom = cfg.Dom(pi)
    loop = cfg.loop_containing(pi, sw, innermost=True)
    good = []
    for c in fl:
        if not dom.dominates(c.bb, sw) or (loop and c.bb not in loop[1]):
            continue
        trim_dep = False
        for a, k, truth in guards_on_all_paths(pi, c.bb):
            if k and k[0] == "field" and any("trim_parse_tree" in str(x) for x in k[2]):
                trim_dep = True
        if not trim_dep:
            good.append(c)
    ctx.check(bool(good), "R17.5", "LRParser::parse_into|flush-before-every-action",
              "handle_additional_tokens runs in every iteration before the action is chosen, independent of trim mode",
              "LRParser::parse_into does not flush the skipped tokens before every table action (calls at lines %s): tokens in front "
              "of the end of input are only flushed by the call behind the loop, which is conditional on !trim_parse_tree - with "
              "trim_parse_tree() the comments behind the last token never reach on_comment" % [c.line for c in fl],
              where(pi, fl[0].line))
