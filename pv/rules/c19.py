"""C19 Generated parsers never crash and always terminate - claimed clauses.

R19.1 recovery is bounded: add_error succeeds only when no recorded error has the same location (duplicate => Err)
      and the number of recorded errors stays below a constant (=> Err); every entry into recovery
      (recover_from_token_mismatch / recover_from_prediction_error) is dominated by an add_error call whose Err
      leaves the handler.  Ranking: every recovery round records an error at a new location or aborts, so there
      are at most LIMIT+1 rounds.
R19.2 explicit panic inventory: the explicit panic constructs (unwrap/expect on Option/Result, panic!/unreachable!/
      unimplemented!/todo!/assert*!) reachable in parol_runtime from LLKParser::{parse,parse_into},
      LRParser::{parse,parse_into}, TokenStream::new* are exactly the reviewed table (each with the reason it cannot
      fire for generated tables).  debug_assert*! sites are listed, not judged; MIR bounds/overflow assertions are
      counted only (value ranges are out of reach of this family).
R19.4 unsigned-subtraction inventory: every overflow-checked `a - b` on the parse paths is either discharged by a
      dominating guard that implies a >= b (pv/rules/subguard.py) or belongs to the reviewed table (function, count,
      reason).  A new unguarded subtraction is a violation (index/length underflow panics in debug builds and wraps
      in release builds).
R19.5 = all C17 rules re-evaluated (the skip predicate used to count stack entries; a mismatch makes the LR action dispatcher
      index past its arguments).
R19.3 main-loop progress (LL): every iteration of parse_into's loop that does not leave the loop pops the parser stack,
      consumes a token or enters a handler (no idle iteration).
"""
from .. import cfg
from ..callgraph import CallGraph
from ..dataflow import operand_term
from ..facts import AnchorMissing
from .common import (RT, where, short, fn_key, classify_switch, only_via_edge, recv_fields, ok_blocks, EMPTY_TESTS)
from .panics import panic_sites, assert_terminators
from . import ll

CRATES = ["parol_runtime.lib"]

META = {
    "explanation": "Decides two clauses of C19: (1) error recovery cannot loop - add_error rejects duplicates and caps the "
                   "number of errors, and recovery is only entered through it; (2) no explicit panic construct is "
                   "reachable from the parse entry points except the reviewed table. Index/overflow panics and "
                   "termination of the main loop outside recovery depend on value ranges and table contents and are "
                   "NOT decided.",
}

LRP = "parol_runtime::lr_parser::parser_types::LRParser::"
# reviewed explicit panic sites (DESIGN Appendix A): key -> (count, reason)
# reviewed unsigned subtractions that no syntactic guard discharges: key -> (count, reason)
SUB_TABLE = {
    "parol_runtime|parser::parser_types|LLKParser::parse_into":
        (1, "production_depth -= 1 at an end-of-production marker; push_production incremented it for the same "
            "(non-push) production when the marker was pushed"),
    "parol_runtime|parser::parser_types|LLKParser::process_item_stack":
        (1, "parse_tree_stack.len() - production.len(): every symbol of the production pushed one node (stack discipline "
            "of the LL driver; decided for the tree shape by C01, not here)"),
    "parol_runtime|parser::recovery|Recovery::levenshtein_distance":
        (17, "i and j range over 1..=len in the fill loops; in the backtrack ops[i][0] is Delete and ops[0][j] is Insert, "
             "so i (j) is only decremented while > 0 (the matrix invariants are C31's subject)"),
    "parol_runtime|parser_common::parse_tree_stack|ParseTreeStack::pop_n":
        (3, "loop condition len < stack.len() makes stack.len() - 1 - len >= 0; len is clamped to stack.len() before "
            "the final stack.len() - len"),
}
PANIC_TABLE = {
    "parol_runtime|parser::parser_types|LLKParser::recover_from_prediction_error|Option::unwrap":
        (1, "iter().next().unwrap() inside unwrap_or_else, guarded by !possible_terminal_strings.is_empty()"),
    "parol_runtime|parser::recovery|Recovery::minimal_token_difference|Option::unwrap":
        (1, "get(i).unwrap() with i produced by iterating the same set"),
    "parol_runtime|parser::recovery|Recovery::restore_terminal_strings|Option::unwrap":
        (6, "node / index look-ups of states that were inserted by the loop above (every from-state of a generated "
            "automaton is 0 or some to-state); find_edge on consecutive nodes of a path of the same graph"),
    "parol_runtime|lr_parser::parser_types|LRParseStack::current_state|Option::unwrap":
        (1, "the LR state stack starts as [0]; Reduce pops len(rhs) states that the same table pushed, never state 0"),
}
ENTRIES = [ll.PARSE, ll.PARSE_INTO, LRP + "parse", LRP + "parse_into"]


def check(ctx):
    facts = ctx.facts()
    cg = CallGraph(facts)

    # ---------------------------------------------------------------- R19.1
    ae = facts.body(ll.ADD_ERROR)
    dom = cfg.Dom(ae)
    oks = ok_blocks(ae)
    if not oks:
        raise AnchorMissing("add_error has no Ok return")
    dup_gates, cap_gates = [], []
    for d in range(len(ae.blocks)):
        k = classify_switch(ae, d)
        if not k:
            continue
        if k[0] == "call" and (k[1].path or "").endswith("Iterator::any"):
            # the closure compares error_location
            cl = None
            for b in facts.closures_of(ae):
                if any(isinstance(e, list) and e[0] == "f" and e[2] == "error_location"
                       for _bi, _k, p, _l in __import__("pv.rules.common", fromlist=["all_places"]).all_places(b) for e in p[1:]):
                    cl = b
            if cl is not None and "error_entries" in recv_fields(ae, operand_term(ae, k[1].args[0])[1]) \
                    if operand_term(ae, k[1].args[0])[0] == "call" else False:
                vals = {0} if not k[2] else {v for v, _t in ae.switch_edges(d) if v != 0}
                dup_gates.append((d, vals))
        if k[0] == "bin" and k[1] in ("Gt", "Ge", "Lt", "Le"):
            a, b2 = k[2], k[3]
            lens = [x for x in (a, b2) if x[0] == "call" and (x[1].path or "").endswith("::len")
                    and "error_entries" in recv_fields(ae, x[1])]
            consts = [x for x in (a, b2) if x[0] == "const" and isinstance(x[2], int)]
            if lens and consts:
                # success on the "not greater" side
                if k[1] in ("Gt", "Ge") and a is lens[0]:
                    vals = {0}
                elif k[1] in ("Lt", "Le") and a is lens[0]:
                    vals = {v for v, _t in ae.switch_edges(d) if v != 0}
                else:
                    vals = {0} if k[1] in ("Lt", "Le") else {v for v, _t in ae.switch_edges(d) if v != 0}
                cap_gates.append((d, vals, consts[0][2]))
    for bi, rv, line in oks:
        a = any(dom.dominates(d, bi) and only_via_edge(ae, d, vals, bi) for d, vals in dup_gates)
        ctx.check(a, "R19.1", "add_error|rejects-duplicate-location",
                  "Ok is reachable only when no recorded error has the same error_location",
                  "add_error can succeed for an error location that is already recorded: recovery may revisit the same "
                  "position forever", where(ae, line))
        c = any(dom.dominates(d, bi) and only_via_edge(ae, d, vals, bi) for d, vals, _c in cap_gates)
        ctx.check(c, "R19.1", "add_error|caps-error-count",
                  "Ok is reachable only while error_entries.len() is within the constant limit (%s)"
                  % [x[2] for x in cap_gates],
                  "add_error no longer limits the number of recorded errors: recovery work is unbounded", where(ae, line))
    # handlers: recovery is entered only after add_error succeeded
    for h, r in ((ll.H_MISMATCH, ll.R_MISMATCH), (ll.H_PREDICTION, ll.R_PREDICTION)):
        hb = facts.body(h)
        hd = cfg.Dom(hb)
        adds = hb.calls_to(ll.ADD_ERROR)
        recs = hb.calls_to(r)
        if len(adds) != 1 or len(recs) != 1:
            raise AnchorMissing("%s: expected one add_error and one %s call" % (short(h), short(r)))
        # the `?` after add_error: recovery only on its Continue edge
        gate = None
        for d in range(len(hb.blocks)):
            k = classify_switch(hb, d)
            if k and k[0] == "qm":
                src = operand_term(hb, k[1].args[0])
                if src[0] == "call" and src[1].bb == adds[0].bb:
                    gate = d
        ok = gate is not None and hd.dominates(gate, recs[0].bb) and only_via_edge(hb, gate, {0}, recs[0].bb)
        ctx.check(ok, "R19.1", "%s|recovery-after-add_error" % short(h).split("::")[-1],
                  "%s is entered only on the Ok edge of add_error(..)?" % short(r).split("::")[-1],
                  "%s can be entered without a successful add_error: the duplicate/limit checks do not bound this "
                  "recovery path" % short(r).split("::")[-1], where(hb, recs[0].line))
    # who may call the recover_* functions
    for r, h in ((ll.R_MISMATCH, ll.H_MISMATCH), (ll.R_PREDICTION, ll.H_PREDICTION)):
        sites = cg.callers_of(r, crates=[RT])
        for b, c in sites:
            ctx.check(b.root_fn(facts).path == h, "R19.1", "%s|called-from-handler" % short(r).split("::")[-1],
                      "%s is called from its handler only" % short(r).split("::")[-1],
                      "%s is called from %s, bypassing add_error" % (short(r), short(b.path)), where(b, c.line))

    # ---------------------------------------------------------------- R19.2
    entries = [facts.body(e) for e in ENTRIES] + \
        [b for b in facts.in_crate(RT) if b.path.startswith("parol_runtime::lexer::token_stream::TokenStream::new")]
    seen = cg.reach(entries, crates=[RT])
    ctx.count("functions_analysed", len(seen))
    found = {}
    dbg = []
    asserts = {}
    for k, (b, pk, info) in seen.items():
        for kind, cons, line in panic_sites(b):
            if kind == "debug":
                dbg.append("%s %s:%d" % (cons, b.file, line))
                continue
            key = "%s|%s" % (fn_key(b, facts), cons)
            found.setdefault(key, []).append((b, line))
        for k2, v in assert_terminators(b).items():
            asserts[k2] = asserts.get(k2, 0) + v
    for key, sites in sorted(found.items()):
        allowed = PANIC_TABLE.get(key)
        b, line = sites[0]
        if allowed and len(sites) <= allowed[0]:
            ctx.ok("R19.2", key, "%d reviewed site(s): %s" % (len(sites), allowed[1]), where(b, line))
        elif allowed:
            ctx.bad("R19.2", key + "|count", "%d explicit panic sites where %d were reviewed (%s); chain: %s"
                    % (len(sites), allowed[0], [l for _b, l in sites], " -> ".join(short(x) for x in cg.chain(seen, b))),
                    where(b, sites[-1][1]))
        else:
            ctx.bad("R19.2", key, "explicit panic construct reachable from the parse entry points and not in the reviewed "
                    "table (lines %s); call chain: %s" % ([l for _b, l in sites],
                                                          " -> ".join(short(x) for x in cg.chain(seen, b))),
                    where(b, line))
    ctx.info("R19.2", "debug-only assertions (not gated): %s" % dbg)
    ctx.info("R19.2", "MIR assert terminators on the parse paths (counted, not judged): %s" % asserts)
    ctx.counters["mir_asserts"] = sum(asserts.values())
    ctx.require_floor("R19.2", "reachable_functions", len(seen), 120)
    ctx.require_floor("R19.2", "reviewed_sites_seen", sum(len(v) for v in found.values()), 5)

    # ---------------------------------------------------------------- R19.4
    from . import subguard
    subguard.inventory(ctx, facts, cg, seen, "R19.4", SUB_TABLE, 20)

    # ---------------------------------------------------------------- R19.3
    pi = facts.body(ll.PARSE_INTO)
    ia, loop = ll.main_loop(pi, cfg)
    header, lblocks, backs = loop
    progress = set()
    for c in pi.calls():
        if c.bb not in lblocks:
            continue
        p = c.path or ""
        f = recv_fields(pi, c)
        if p.endswith("Vec::pop") and "stack" in f:
            progress.add(c.bb)
        if c.names() & {ll.H_MISMATCH, ll.H_PREDICTION}:
            progress.add(c.bb)
    back_edges = {(b, header) for b in backs}
    # from the loop body entry (the non-accepting edge) to a back edge avoiding progress blocks
    path = cfg.find_path(pi, [ia.target], lambda a, b: (a, b) in back_edges,
                         forbidden_block_pred=lambda b: b in progress or b not in lblocks)
    # the `if let Some(entry) = stack.last()` None edge is an idle iteration only if the stack is empty, which is
    # exactly input_accepted(): accept the path iff it goes through the None edge of that test
    idle_ok = False
    if path is not None:
        for b in path:
            k = classify_switch(pi, b)
            if k and k[0] == "disc-call" and (k[1].path or "").endswith("Option::cloned"):
                idle_ok = True
    ctx.check(path is None or idle_ok, "R19.3", "parse_into|loop-progress",
              "every loop iteration pops the parser stack or enters an error handler (the only idle path is the "
              "`stack.last() == None` edge, which input_accepted() excludes)",
              "an iteration of the main parse loop can complete without popping the parser stack or entering an error "
              "handler: blocks %s" % path, where(pi))
    # ---------------------------------------------------------------- R19.5 = C17's rules (added after seed C19-b)
    # pop_n counts parse-tree-stack entries with the *effective* skip predicate; counting with the raw predicate pops too few
    # symbols for a %skip token and the action dispatcher indexes past its arguments (panic)
    from . import c17
    c17.check(ctx)
