"""C12 LR augmentation preserves the language and isolates the start symbol.

R12.1 augment_grammar: a return that leaves the grammar unchanged (no production inserted) must be
      decided by code that reads right-hand sides and the start symbol: "the start symbol occurs on no
      right-hand side" cannot be guaranteed by a function that returns its input without looking at one.
R12.2 augmenting path: new start = one generate_name result (exclusions: the grammar's non-terminal set);
      it becomes both `st` and the left-hand side of the production inserted at index 0 whose right-hand side
      is exactly [N(old start)].
R12.3 the LALR pipeline hands exactly augment_grammar's result on (check_and_transform_lr).
"""
from .. import cfg
from ..callgraph import CallGraph
from ..dataflow import operand_term, raw_operand_place, raw_place, single_def, forward_derived, term_str
from ..facts import AnchorMissing
from .common import (PA, where, short, transitive_control_deps, control_dependence_no_errors, only_via_edge,
                     all_places, ok_blocks)

CRATES = ["parol.lib", "parol_runtime.lib"]

META = {
    "explanation": "Decides the isolation clause of C12 structurally: every path of augment_grammar that returns "
                   "the input grammar unchanged is control dependent on a test that inspects the right-hand sides "
                   "for the start symbol (and on 'exactly one start production'); on the augmenting path the new "
                   "start symbol is fresh (generate_name over all non-terminals), is both `st` and the single new "
                   "left-hand side at index 0 with right-hand side [old start]. Language preservation follows from "
                   "R12.2 (S' -> S adds no sentence). Not decided: anything inside lalry.",
}

AUG = "parol::transformation::lr_augmentation::augment_grammar"
GET_R = "parol::grammar::production::Pr::get_r"
PR = "parol::grammar::production::Pr"
CFG = "parol::grammar::cfg::Cfg"
GEN = "parol::utils::generate_name"
INSERT = "std::vec::Vec::insert"
PUSH = "std::vec::Vec::push"
SYMBOL = "parol::grammar::symbol::Symbol"
PARTIAL = {"last", "first", "get", "split_last", "split_first", "first_chunk", "last_chunk", "get_unchecked", "index",
           "nth", "take", "skip", "starts_with", "ends_with"}
STRUCTURAL_TRAITS = {"std::cmp::PartialEq", "std::cmp::Eq", "std::cmp::PartialOrd", "std::cmp::Ord", "std::hash::Hash",
                     "std::clone::Clone", "std::fmt::Debug"}


def closure_args(facts, body, call):
    out = []
    for a in call.args:
        if a[0] in ("c", "m") and len(a[1]) == 1:
            d = single_def(body, a[1][0])
            if d and d[0] == "assign" and d[3][0] == "agg" and d[3][1] == "closure":
                cb = facts.body_by_path_opt(d[3][2])
                if cb is not None:
                    out.append(cb)
    return out


def positions_idiom(facts, body, deps, blk):
    """(ok, why, call) when the guarding test is `any` over Cfg::get_non_terminal_positions with a closure that selects the
    right-hand-side positions by `sy_index() > 0` and compares the name with cfg.st; None when the idiom is not present"""
    for a, s_, k in deps:
        if not k or k[0] != "call" or (k[1].path or "").split("::")[-1] not in ("any", "all", "find", "position"):
            continue
        call, neg = k[1], k[2]
        src = operand_term(body, call.args[0]) if call.args else ("unknown",)
        chain = []
        hops = 0
        while src[0] in ("call", "proj") and hops < 8:
            hops += 1
            if src[0] == "proj":
                src = src[1]
                continue
            chain.append((src[1].path or "").split("::")[-1])
            if (src[1].path or "").endswith("Cfg::get_non_terminal_positions"):
                break
            src = operand_term(body, src[1].args[0]) if src[1].args else ("unknown",)
        if "get_non_terminal_positions" not in chain:
            continue
        adaptors = set(chain) & PARTIAL
        cls = closure_args(facts, body, call)
        thr = None
        reads_st = False
        for cl in cls:
            for bi, si, p, rv, line, mac in cl.assigns():
                if rv[0] == "bin" and rv[1] in ("Gt", "Ge", "Ne", "Lt", "Le", "Eq"):
                    ta, tb = operand_term(cl, rv[2]), operand_term(cl, rv[3])
                    for x, y in ((ta, tb), (tb, ta)):
                        if x[0] == "call" and (x[1].path or "").endswith("sy_index") and y[0] == "const":
                            thr = (rv[1] if x is ta else {"Gt": "Lt", "Lt": "Gt", "Ge": "Le", "Le": "Ge"}.get(rv[1], rv[1]), y[2])
            for bi, kind, p, line in all_places(cl):
                if any(isinstance(e, list) and e[0] == "f" and e[3] == CFG and e[2] == "st" for e in p[1:]):
                    reads_st = True
        if thr is None:
            return (False, "the closure does not select right-hand-side positions by sy_index()", call)
        good = thr in (("Gt", 0), ("Ne", 0), ("Ge", 1))
        if adaptors:
            return (False, "the positions are filtered or truncated (%s)" % sorted(adaptors), call)
        if not reads_st:
            return (False, "the closure does not compare with cfg.st", call)
        vals = {0} if not neg else {v for v, _t in body.switch_edges(a) if v != 0}
        if not only_via_edge(body, a, vals, blk):
            return (False, "the unchanged return is not on the 'not found' edge", call)
        return (good, "it selects positions with sy_index() %s %s instead of > 0 (position 0 is the left-hand side, 1 the first "
                "right-hand-side symbol)" % ({"Gt": ">", "Ge": ">=", "Ne": "!=", "Lt": "<", "Le": "<=", "Eq": "=="}[thr[0]], thr[1]), call)
    return None


def reads_rhs_and_start(facts, cg, roots, depth=3):
    """do the bodies reachable (<= depth calls) from roots read right-hand sides and Cfg.st?"""
    seen = set()
    frontier = list(roots)
    rhs = False
    st = False
    name = False
    for _ in range(depth + 1):
        nxt = []
        for b in frontier:
            k = cg.key(b)
            if k in seen:
                continue
            seen.add(k)
            if b.impl_trait in STRUCTURAL_TRAITS:
                # whole-value comparisons (derived PartialEq/Ord/Hash ..) are not a comparison of the *name*
                continue
            for gc in b.calls_to(GET_R):
                # the right-hand side must be scanned completely: its consumers iterate it
                der = forward_derived(b, [gc.dest[0]], through_calls=lambda c: bool(
                    c.names() & {"std::ops::Deref::deref", "std::vec::Vec::as_slice", "std::convert::AsRef::as_ref"}))
                cons = [(c.path or "").split("::")[-1] for c in b.calls()
                        if c.bb != gc.bb and any(a[0] in ("c", "m") and a[1][0] in der for a in c.args)
                        and not (c.names() & {"std::ops::Deref::deref"})]
                if any(n in ("iter", "into_iter") for n in cons) and not any(n in PARTIAL for n in cons):
                    rhs = True
            for bi, kind, p, line in all_places(b):
                for e in p[1:]:
                    if isinstance(e, list) and e[0] == "f":
                        if e[3] == PR and e[1] == 1 and kind == "r" and b.path != GET_R:
                            names_ = [(c.path or "").split("::")[-1] for c in b.calls()]
                            if any(n in ("iter", "into_iter") for n in names_) and not any(n in PARTIAL for n in names_):
                                rhs = True
                        if e[3] == CFG and e[2] == "st" and kind == "r":
                            st = True
                for i, e in enumerate(p[1:]):
                    if isinstance(e, list) and e[0] == "d" and e[1] == "N" and i + 2 < len(p):
                        nx = p[i + 2]
                        if isinstance(nx, list) and nx[0] == "f" and nx[1] == 0 and nx[3] == SYMBOL:
                            name = True
            for t, info in cg.out_edges(b):
                if t.crate == PA:
                    nxt.append(t)
        frontier = nxt
    return rhs, st, name


def check(ctx):
    facts = ctx.facts()
    cg = CallGraph(facts)
    body = facts.body(AUG)
    ctx.count("functions_analysed", 1 + len(facts.closures_of(body)))
    inserts = [c for c in body.calls_to(INSERT, PUSH) if PR in c.self_ty]
    if not inserts:
        raise AnchorMissing("augment_grammar inserts no production")
    ins_blocks = {c.bb for c in inserts}
    rets = body.return_blocks()
    unchanged = cfg.reachable_from(body, 0, avoid_blocks=ins_blocks) & cfg.reaches(body, rets, avoid_blocks=ins_blocks)
    # blocks on unchanged paths that define the return value
    ret_defs = []
    for b in sorted(unchanged):
        c = body.call_at(b)
        if c is not None and c.dest == [0]:
            ret_defs.append((b, c.line))
        for s in body.stmts(b):
            if s[0] == "a" and s[1] == [0]:
                ret_defs.append((b, s[3]))
    if rets and 0 in unchanged and not ret_defs:
        raise AnchorMissing("augment_grammar: unchanged path found but no assignment of the return value on it")
    if not ret_defs:
        ctx.ok("R12.1", "augment_grammar|always-augments",
               "no path returns without inserting the new start production", where(body))
    cd = control_dependence_no_errors(body)
    for b, line in ret_defs:
        deps = transitive_control_deps(body, b, cd=cd)
        found = None
        count_test = False
        count_src = None
        for a, s, k in deps:
            if k and k[0] == "call":
                call, neg = k[1], k[2]
                roots = closure_args(facts, body, call) + [t for t in cg.targets_of_call(call) if t.crate == PA]
                rhs, st, name = reads_rhs_and_start(facts, cg, roots)
                if rhs and name:
                    # polarity: the unchanged return must lie on the "start symbol NOT found" edge
                    vals = {0} if not neg else {v for v, _t in body.switch_edges(a) if v != 0}
                    if only_via_edge(body, a, vals, b):
                        found = call
            if k and k[0] == "bin" and k[1] in ("Eq", "Ne", "Gt", "Lt", "Le", "Ge"):
                # the compared number is the number of productions *of the start symbol*: len() of
                # Cfg::matching_productions(&cfg.st), or a count over productions filtered by the start symbol
                for side in (k[2], k[3]):
                    t = side
                    hops = 0
                    while t[0] in ("call", "proj") and hops < 8:
                        hops += 1
                        if t[0] == "proj":
                            t = t[1]
                            continue
                        c2 = t[1]
                        if (c2.path or "").endswith("Cfg::matching_productions"):
                            reads_st = False
                            for a2 in c2.args[1:]:
                                rp2 = raw_operand_place(body, a2)
                                if rp2 and any(isinstance(e, list) and e[0] == "f" and e[3] == CFG and e[2] == "st" for e in rp2[1:]):
                                    reads_st = True
                                t3 = operand_term(body, a2, through_calls=True)
                                if t3[0] == "path" and t3[2] and t3[2][-1] == "st":
                                    reads_st = True
                            if reads_st:
                                count_test = True
                            else:
                                count_src = "matching_productions of something else than cfg.st"
                            break
                        if (c2.path or "").split("::")[-1] in ("len", "count", "unwrap_or_default", "unwrap_or", "unwrap"):
                            t = operand_term(body, c2.args[0]) if c2.args else ("unknown",)
                            continue
                        count_src = short(c2.path or "?")
                        break
        if found is None:
            # second accepted idiom: cfg.get_non_terminal_positions().iter().any(|(pos, n)| pos.sy_index() > 0 && *n == cfg.st)
            alt = positions_idiom(facts, body, deps, b)
            if alt is not None:
                okalt, why, call = alt
                ctx.check(okalt, "R12.1", "augment_grammar|unchanged-return-reads-rhs",
                          "the unchanged return is taken only when no non-terminal position with symbol index > 0 names the start symbol",
                          "augment_grammar looks for the start symbol among the non-terminal positions, but %s: an occurrence of the "
                          "start symbol at the excluded right-hand-side position leaves the grammar unaugmented" % why,
                          where(body, call.line))
                found = call if okalt else None
                if not okalt:
                    continue
        ctx.check(found is not None, "R12.1", "augment_grammar|unchanged-return-reads-rhs",
                  "the unchanged return (bb%d) is taken only on the false edge of a test (%s) whose closure reads "
                  "right-hand sides (Pr::get_r) and compares the name component of Symbol::N" % (b, short(found.path) if found else ""),
                  "augment_grammar returns the grammar unchanged without a test that scans the *complete* right-hand sides for the "
                  "*name* of the start symbol (Symbol::N field 0; a whole-Symbol comparison misses clipped / typed / "
                  "member-named occurrences): the start symbol of the LR grammar may then occur on a right-hand side",
                  where(body, line))
        # the scan covers *all* productions: the iterator the test runs on is the grammar's production list itself
        # (Cfg.pr through iter()/deref only), not a pre-selected subset (added after seed C04-a)
        if found is not None:
            src = operand_term(body, found.args[0], through_calls=True) if found.args else ("unknown",)
            whole = src[0] == "path" and bool(src[2]) and src[2][-1] == "pr" and 1 <= src[1] <= body.nargs
            if not whole:
                # the helper enumerates the non-terminal occurrences of every production of the grammar it is called on
                t2 = operand_term(body, found.args[0]) if found.args else ("unknown",)
                hops = 0
                adapt = []
                while t2[0] in ("call", "proj") and hops < 8:
                    hops += 1
                    if t2[0] == "proj":
                        t2 = t2[1]
                        continue
                    nm2 = (t2[1].path or "").split("::")[-1]
                    if (t2[1].path or "").endswith("Cfg::get_non_terminal_positions"):
                        rp = raw_operand_place(body, t2[1].args[0]) if t2[1].args else None
                        whole = bool(rp) and 1 <= rp[0] <= body.nargs and not (set(adapt) & PARTIAL)
                        break
                    adapt.append(nm2)
                    t2 = operand_term(body, t2[1].args[0]) if t2[1].args else ("unknown",)
            ctx.check(whole, "R12.1", "augment_grammar|scan-covers-all-productions",
                      "the right-hand-side test iterates the grammar's whole production list (cfg.pr)",
                      "the right-hand-side test runs on %s, not on the grammar's whole production list cfg.pr: an occurrence of "
                      "the start symbol in a production that is not visited leaves the grammar unaugmented"
                      % (short(src[1].path) + "(..)" if src[0] == "call" else term_str(body, src)), where(body, found.line))
        ctx.check(count_test, "R12.1", "augment_grammar|unchanged-return-counts-start-productions",
                  "the unchanged return also depends on a comparison of the number of start productions",
                  "the unchanged return no longer depends on the number of productions of the start symbol%s "
                  "(the start symbol must have exactly one production; a count taken from another non-terminal - e.g. the one "
                  "defined first - leaves a start symbol with several alternatives unaugmented)"
                  % (" (it compares a number obtained from %s)" % count_src if count_src else ""), where(body, line))

    # ------------------------------------------------------------------ R12.2
    gens = body.calls_to(GEN)
    if len(gens) != 1:
        raise AnchorMissing("augment_grammar: expected exactly one generate_name call, found %d" % len(gens))
    g = gens[0]
    G = g.dest[0]
    # exclusions derive from get_non_terminal_set of the input grammar
    ex = raw_operand_place(body, g.args[0])
    exd = single_def(body, ex[0]) if ex else None
    ok_ex = False
    if exd and exd[0] == "call":
        src = raw_operand_place(body, exd[3].args[0]) if exd[3].args else None
        sd = single_def(body, src[0]) if src else None
        ok_ex = bool(sd and sd[0] == "call" and "parol::grammar::cfg::Cfg::get_non_terminal_set" in sd[3].names())
    ctx.check(ok_ex, "R12.2", "augment_grammar|fresh-name-exclusions",
              "generate_name's exclusions iterate cfg.get_non_terminal_set() (all non-terminals of the grammar)",
              "the new start symbol is not generated against the set of all non-terminals: it may coincide with an "
              "existing non-terminal", where(body, g.line))
    ins = inserts[0]
    ctx.check(len(inserts) == 1 and "insert" in ins.path and ins.args[1][0] == "k" and ins.args[1][2] == 0,
              "R12.2", "augment_grammar|insert-at-0",
              "exactly one production is inserted, at index 0", "the new start production is not inserted at index 0 "
              "(the production numbering / start production of the LR table relies on it)", where(body, ins.line))
    prd = single_def(body, ins.args[2][1][0]) if ins.args[2][0] in ("c", "m") else None
    lhs_ok = False
    if prd and prd[0] == "call" and "parol::grammar::production::Pr::new" in prd[3].names():
        lp = raw_operand_place(body, prd[3].args[0])
        d = single_def(body, lp[0]) if lp else None
        if d and d[0] == "call" and "std::ops::Deref::deref" in d[3].names():
            lp = raw_operand_place(body, d[3].args[0])
        lhs_ok = bool(lp and lp[0] == G)
    ctx.check(lhs_ok, "R12.2", "augment_grammar|lhs-is-new-start",
              "the inserted production's left-hand side is the generate_name result",
              "the inserted production's left-hand side is not the generated start symbol", where(body, ins.line))
    st_ok = False
    for c in body.calls():
        if c.names() & {"std::clone::Clone::clone_from"}:
            tp = raw_operand_place(body, c.args[0])
            sp = raw_operand_place(body, c.args[1])
            if tp and sp and any(isinstance(e, list) and e[0] == "f" and e[2] == "st" and e[3] == CFG for e in tp[1:]) \
                    and sp[0] == G and tp[0] != 1:
                st_ok = True
    for bi, si, p, rv, line, mac in body.assigns():
        if any(isinstance(e, list) and e[0] == "f" and e[2] == "st" and e[3] == CFG for e in p[1:]) and p[0] != 1:
            t = raw_place(body, rv[1][1]) if rv[0] == "use" and rv[1][0] in ("c", "m") else None
            d = single_def(body, t[0]) if t else None
            if t and (t[0] == G or (d and d[0] == "call" and "std::clone::Clone::clone" in d[3].names()
                                    and raw_operand_place(body, d[3].args[0])[0] == G)):
                st_ok = True
    ctx.check(st_ok, "R12.2", "augment_grammar|st-is-new-start",
              "new_cfg.st is set from the same generate_name result",
              "the start symbol of the augmented grammar is not set to the generated name", where(body))
    syms = [(bi, rv, line) for bi, si, p, rv, line, mac in body.assigns()
            if rv[0] == "agg" and rv[2] == "parol::grammar::symbol::Symbol"]
    rhs_ok = False
    if len(syms) == 1 and syms[0][1][3] == "N":
        o = syms[0][1][4][0]
        d = single_def(body, o[1][0]) if o[0] in ("c", "m") else None
        if d and d[0] == "call" and "std::clone::Clone::clone" in d[3].names():
            sp = raw_operand_place(body, d[3].args[0])
            rhs_ok = bool(sp and sp[0] == 1 and any(isinstance(e, list) and e[0] == "f" and e[2] == "st" for e in sp[1:]))
    ctx.check(rhs_ok, "R12.2", "augment_grammar|rhs-is-old-start",
              "the new production's right-hand side is the single symbol N(cfg.st) of the input grammar",
              "the right-hand side of the new start production is not exactly [N(old start symbol)]", where(body))

    # ------------------------------------------------------------------ R12.3
    trans = facts.body("parol::generators::grammar_trans::check_and_transform_lr")
    oks = ok_blocks(trans)
    good = 0
    for bi, rv, line in oks:
        t = operand_term(trans, rv[4][0])
        good += 1 if (t[0] == "call" and AUG in t[1].names()) else 0
    ctx.check(oks and good == len(oks), "R12.3", "check_and_transform_lr|returns-augmented",
              "every Ok(..) of check_and_transform_lr is the direct result of augment_grammar",
              "check_and_transform_lr can return a grammar that did not pass augment_grammar", where(trans))
    callers = [b for b, c in cg.callers_of(AUG, crates=[PA])]
    ctx.require_floor("R12.3", "augment_callers", len(callers), 1)
