"""C21 Generated parser source and export model encode the analysis faithfully - thin: writer/reader layout.

R21.1 Trans layout: the `Trans({}, {}, {}, {})` template of parser_generator::Dfa::{from_ir, from_compiled_dfa} is filled
      in the order (from_state, term, to_state, prod_num) - the order in which the runtime's LookaheadDFA::eval reads
      fields 0..3 (0 compared with the state, 1 with the token type, 2 assigned to the state, 3 to the production).
R21.2 right-hand sides are reversed exactly once: parser_generator::Production::from_ir applies rev() to the rhs once;
      the runtime pushes forward (C02 R02.2).  LR: LRProduction.len is the unfiltered rhs length.
R21.3 field_read_coverage: every field of the internal models (ProductionModel, LookaheadAutomatonModel,
      LookaheadTransitionModel, LalrParseTableModel, LalrStateModel) is read both by the Rust renderer
      (parser_generator / parser_render_ir) and by the export-model builder, except reasoned exceptions.
R21.4 same-name copies: wherever a model / IR / export struct is built from the fields of another struct that has
      fields of the same names, each field is copied from the field of the same name (no from_state/to_state swap,
      no lhs/len mix-up).
R21.5 token numbers in the production tables: C18's rules, re-evaluated here.
R21.6 = all C13 rules re-evaluated: the scanner tables of the generated source (terminal order, each pattern expanded with its
      own kind, transitions unfiltered).
"""
import re

from .. import cfg
from ..artefact import rx
from ..dataflow import operand_term, raw_operand_place, raw_place, single_def
from ..facts import AnchorMissing
from .common import PA, RT, where, short, fn_key, all_places, closure_of_arg_any
from . import c08

CRATES = ["parol.lib", "parol_runtime.lib"]

META = {
    "explanation": "Decides layout agreement between the writers (generator, export-model builder) and the reader (runtime) "
                   "of the parser tables: field order of Trans, single reversal of right-hand sides, no analysis field "
                   "ignored by renderer or export model, field-wise copies between model layers are name-consistent, "
                   "terminal numbering (C18). Snapshot tests only pin the text for the repository's grammars.",
}

PM = "parol::generators::parser_model::"
PG = "parol::generators::parser_generator::"
MODELS = ["ProductionModel", "LookaheadAutomatonModel", "LookaheadTransitionModel", "LalrParseTableModel", "LalrStateModel"]
EXPORT_EXCEPTIONS = {
    ("ProductionModel", "is_push_production"):
        "not part of export schema v1/v2 (only affects the runtime's depth accounting, C20 R20.3)",
}
RENDER_EXCEPTIONS = {}
COPY_MODULES = ("parol::generators::parser_model", "parol::generators::parser_generator",
                "parol::generators::parser_render_ir", "parol::analysis::compiled_la_dfa",
                "parol::analysis::lalr1_parse_table", "parol::generators::lexer_ir", "parol::generators::lexer_generator")


def display_arg_fields(facts, cl, adt_hint=None):
    """names of the struct fields handed to Argument::new_display, in call order"""
    out = []
    for c in cl.calls():
        if c.path == "core::fmt::rt::Argument::new_display":
            rp = raw_operand_place(cl, c.args[0])
            # the reference is taken from a tuple of references (format_args), follow one more level
            hops = 0
            while rp is not None and hops < 4:
                names = [e[2] for e in rp[1:] if isinstance(e, list) and e[0] == "f" and e[3] != "()"]
                if names:
                    out.append(names[-1])
                    break
                d = single_def(cl, rp[0])
                if d and d[0] == "assign" and d[3][0] == "agg" and d[3][1] == "tuple":
                    idx = [e[1] for e in rp[1:] if isinstance(e, list) and e[0] == "f"]
                    if idx:
                        rp = raw_operand_place(cl, d[3][4][idx[0]])
                        hops += 1
                        continue
                break
    return out


def check(ctx):
    facts = ctx.facts()
    # ---------------------------------------------------------------- R21.1
    n = 0
    for fn in ("Dfa::from_ir", "Dfa::from_compiled_dfa"):
        b = facts.body(PG + fn)
        for cl in facts.closures_of(b):
            tpls = [rv[1][2] for bi, si, p, rv, line, mac in cl.assigns()
                    if rv[0] == "use" and rv[1][0] == "k" and rv[1][1].startswith("&[u8;") and isinstance(rv[1][2], str)]
            if not tpls:
                continue
            n += 1
            parts = rx.decode_fmt_template(tpls[0])
            lits = "".join(p[1] if p[0] == "lit" else "{}" for p in parts)
            order = display_arg_fields(facts, cl)
            # placeholders name their argument (implicitly previous + 1, or explicitly): read the fields in placeholder order
            order = [order[p[1]] for p in parts if p[0] == "arg" and p[1] < len(order)]
            ok = lits.startswith("Trans({}, {}, {}, {})") and order == ["from_state", "term", "to_state", "prod_num"]
            ctx.check(ok, "R21.1", "%s|trans-template-order" % fn,
                      "template %r is filled with (from_state, term, to_state, prod_num)" % lits,
                      "the Trans(..) rows are rendered as %r with fields %s; the runtime reads field 0 as from-state, 1 as "
                      "terminal, 2 as to-state, 3 as production" % (lits, order), where(cl))
    ctx.require_floor("R21.1", "trans_templates", n, 2)
    ev = facts.body(c08.EVAL)
    roles = {}
    for bi, si, p, rv, line, mac in ev.assigns():
        if rv[0] == "bin" and rv[1] in ("Eq", "Ne"):
            for o in (rv[2], rv[3]):
                rp = raw_operand_place(ev, o)
                if rp is not None and c08.trans_field_of(rp) == 0:
                    roles[0] = "compared"
        if len(p) == 1 and rv[0] == "use" and rv[1][0] in ("c", "m"):
            f = c08.trans_field_of(raw_place(ev, rv[1][1]))
            if f in (2, 3) and ev.local_name(p[0]):
                roles[f] = ev.local_name(p[0])
    for c in ev.calls():
        if c.path == "std::cmp::Ord::cmp":
            rp = raw_operand_place(ev, c.args[0])
            if rp is not None and c08.trans_field_of(rp) == 1:
                roles[1] = "cmp-with-token"
    ctx.check(roles.get(0) == "compared" and roles.get(1) == "cmp-with-token" and roles.get(2) == "state"
              and roles.get(3) == "prod_num", "R21.1", "eval|reader-field-roles",
              "eval uses Trans.0 as from-state, .1 as terminal, .2 -> state, .3 -> prod_num",
              "the runtime no longer reads the Trans fields in the roles the generator writes them (%s)" % roles, where(ev))

    # ---------------------------------------------------------------- R21.2
    pf = facts.body(PG + "Production::from_ir")
    revs = [c for c in pf.calls() if (c.path or "").endswith("Iterator::rev")]
    ok = False
    if len(revs) == 1:
        t = operand_term(pf, revs[0].args[0])
        hops = 0
        while t[0] == "call" and hops < 4:
            rp = raw_operand_place(pf, t[1].args[0]) if t[1].args else None
            names = [e[2] for e in rp[1:] if isinstance(e, list) and e[0] == "f"] if rp else []
            if "rhs" in names:
                ok = True
                break
            t = operand_term(pf, t[1].args[0]) if t[1].args else ("unknown",)
            hops += 1
    ctx.check(ok, "R21.2", "Production::from_ir|rhs-reversed-once",
              "the LL production table stores the right-hand side reversed (exactly one rev() on rhs)",
              "Production::from_ir applies rev() %d times to the right-hand side: the runtime pushes the stored order "
              "forward, so the first symbol must be stored last" % len(revs), where(pf))
    lr = facts.body("parol::generators::parser_render_ir::build_lalr_production_render_ir")
    len_ok = False
    for cl in facts.family(lr):
        for bi, si, p, rv, line, mac in cl.assigns():
            if rv[0] == "agg" and rv[2].endswith("LalrProductionRenderIR"):
                names = [f for f, _t in facts.adt_fields(rv[2])]
                t = operand_term(cl, rv[4][names.index("rhs_len")])
                if t[0] == "call" and (t[1].path or "").endswith("::len"):
                    rp = raw_operand_place(cl, t[1].args[0])
                    fs = [e[2] for e in rp[1:] if isinstance(e, list) and e[0] == "f"] if rp else []
                    len_ok = fs[-1:] == ["rhs"]
    ctx.check(len_ok, "R21.2", "lalr-production|len-is-unfiltered-rhs-length",
              "LRProduction.len is rhs.len() (clipped symbols included; the LR driver pops that many states)",
              "the LR production length is not the plain length of the right-hand side", where(lr))

    # ---------------------------------------------------------------- R21.3
    render = [b for b in facts.in_crate(PA) if b.module in ("parol::generators::parser_generator",
                                                            "parol::generators::parser_render_ir",
                                                            "parol::generators::cs_parser_generator")]
    export = [b for b in facts.in_crate(PA) if b.module == "parol::generators::parser_model" and
              (short(b.root_fn(facts).path).split("::")[-1].startswith("to_") or
               short(b.root_fn(facts).path).split("::")[-1].startswith("build_export_model"))]

    def reads(bodies, adt):
        out = set()
        for b in bodies:
            for bi, kind, p, line in all_places(b):
                for i, e in enumerate(p[1:]):
                    if isinstance(e, list) and e[0] == "f" and e[3] == adt:
                        if kind == "w" and i == len(p) - 2:
                            continue
                        out.add(e[2])
        return out
    for m in MODELS:
        adt = PM + m
        decl = [f for f, _t in facts.adt_fields(adt)]
        r1, r2 = reads(render, adt), reads(export, adt)
        for f in decl:
            if (m, f) not in RENDER_EXCEPTIONS:
                ctx.check(f in r1, "R21.3", "%s.%s|read-by-renderer" % (m, f), "read by the source renderer",
                          "%s.%s (an analysis result) is never read by the parser source renderer" % (m, f),
                          "crates/parol/src/generators/parser_generator.rs")
            if (m, f) in EXPORT_EXCEPTIONS:
                ctx.ok("R21.3", "%s.%s|export-exception" % (m, f), EXPORT_EXCEPTIONS[(m, f)], nontrivial=False)
            else:
                ctx.check(f in r2, "R21.3", "%s.%s|read-by-export-model" % (m, f), "read by the export-model builder",
                          "%s.%s (an analysis result) is never read by the export-model builder: source and export "
                          "model would describe different parsers" % (m, f), "crates/parol/src/generators/parser_model.rs")

    # ---------------------------------------------------------------- R21.4
    ncopy = 0
    for b in facts.in_crate(PA):
        if b.module not in COPY_MODULES or b.mac or b.root_fn(facts).mac:
            continue        # derive / serde generated bodies
        for bi, si, p, rv, line, mac in b.assigns():
            if rv[0] != "agg" or rv[1] != "adt" or not rv[2].startswith("parol::"):
                continue
            try:
                names = [f for f, _t in facts.adt_fields(rv[2], rv[3] if facts.adt(rv[2])["kind"] == "enum" else None)]
            except AnchorMissing:
                continue
            if len(names) < 2 or len(names) != len(rv[4]) or all(n.isdigit() for n in names):
                continue
            nameset = set(names)
            for fname, o in zip(names, rv[4]):
                rp = raw_operand_place(b, o) if o[0] in ("c", "m") else None
                if rp is None:
                    continue
                fs = [e for e in rp[1:] if isinstance(e, list) and e[0] == "f" and e[3] != "()" and not e[3].startswith("closure:")]
                if not fs:
                    continue
                src = fs[-1][2]
                if src in nameset:
                    ncopy += 1
                    if src != fname:
                        ctx.bad("R21.4", "%s|%s.%s<-%s" % (fn_key(b, facts), short(rv[2]).split("::")[-1], fname, src),
                                "%s { %s: <source>.%s } - the field is filled from a differently named field that the "
                                "target also has: a swap between the layers of the parser model" % (short(rv[2]), fname, src),
                                where(b, line))
    ctx.ok("R21.4", "same-name-copies", "%d field copies between model layers are name-consistent" % ncopy)
    ctx.require_floor("R21.4", "field_copies", ncopy, 20)

    # ---------------------------------------------------------------- R21.5
    from . import c18
    c18.check(ctx)
    # ---------------------------------------------------------------- R21.6 = C13's generation rules (added after seed C21-b)
    # the scanner part of the generated source: terminal order, every pattern expanded with its own kind, transitions unfiltered
    from . import c13
    c13.check(ctx)
