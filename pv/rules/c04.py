"""C04 LALR(1) conflicts are always reported and resolution stays sound - the reporting channel.

R04.1 <LALRConfig as lalry::Config>::warn_on_resolved_conflicts returns the constant `true` on every path (otherwise
      lalry never calls the callback and conflicts are resolved silently).
R04.2 on_resolved_conflict: recording the conflict (push into self.calls) and printing it post-dominate the entry.
R04.3 calculate_lalr1_parse_table: the Ok value's second component is `calls` of the same config object that was handed
      to Grammar::lalr1, and lalr1's Err is propagated (never converted into Ok).
R04.4 documented resolution policy: shift preferred (constant true) and priority = -(production index) (earlier
      production preferred).
R04.5 = all C12 rules re-evaluated: lalry turns "reduce a start production on end of input" into Accept, so sound
      acceptance needs the start symbol to be isolated by augment_grammar (necessary condition of the soundness clause).
R04.6 = all C18 rules re-evaluated (terminal identity in the grammar handed to lalry).
Soundness of the resolved table (inside lalry, grammars x inputs) is NOT decided.
"""
from .. import cfg
from ..dataflow import operand_term, raw_operand_place, forward_derived, single_def, term_str
from ..facts import AnchorMissing
from .common import PA, where, short, ok_blocks, classify_switch, only_via_edge, recv_fields

CRATES = ["parol.lib", "parol_runtime.lib"]

META = {
    "explanation": "Decides that the conflict-reporting channel between lalry and parol's caller cannot be bypassed: "
                   "warnings are always requested, every callback records and prints, the recorded list is what "
                   "calculate_lalr1_parse_table returns, construction errors propagate. lalry's own behaviour is trusted.",
}

M = "parol::analysis::lalr1_parse_table::"
CFGT = "<parol::analysis::lalr1_parse_table::LALRConfig as lalry::Config<'a, u16, usize, usize>>::"


def const_returns(body):
    vals = []
    other = []
    for bi, si, p, rv, line, mac in body.assigns():
        if p == [0]:
            if rv[0] == "use" and rv[1][0] == "k":
                vals.append(rv[1][2])
            else:
                other.append(line)
    for c in body.calls():
        if c.dest == [0]:
            other.append(c.line)
    return vals, other


def find_impl(facts, name):
    bs = [b for b in facts.in_crate(PA) if b.path.startswith("<parol::analysis::lalr1_parse_table::LALRConfig as lalry::Config")
          and b.path.endswith("::" + name)]
    if len(bs) != 1:
        raise AnchorMissing("LALRConfig::%s not found (%d candidates)" % (name, len(bs)))
    return bs[0]


def check(ctx):
    facts = ctx.facts()
    w = find_impl(facts, "warn_on_resolved_conflicts")
    vals, other = const_returns(w)
    ctx.check(vals and all(v is True for v in vals) and not other, "R04.1", "warn_on_resolved_conflicts|always-true",
              "returns the constant true on every path",
              "warn_on_resolved_conflicts can return something other than `true` (%s): resolved conflicts would not be "
              "reported" % (vals + other), where(w))
    sh = find_impl(facts, "resolve_shift_reduce_conflict_in_favor_of_shift")
    vals, other = const_returns(sh)
    ctx.check(vals and all(v is True for v in vals) and not other, "R04.4", "shift-preferred|always-true",
              "shift/reduce conflicts are resolved in favour of shift (constant)",
              "the shift-preference policy is no longer the constant documented one", where(sh), nontrivial=False)

    cb = find_impl(facts, "on_resolved_conflict")
    pd = cfg.PostDom(cb)
    pushes = [c for c in cb.calls() if (c.path or "").endswith("Vec::push") and "LRResolvedConflict" in (c.self_ty or "")]
    rec = False
    if len(pushes) == 1:
        # receiver derives from self.calls.borrow_mut()
        rp = raw_operand_place(cb, pushes[0].args[0])
        src = rp
        hops = 0
        names = []
        while src is not None and hops < 5:
            names = [e[2] for e in src[1:] if isinstance(e, list) and e[0] == "f"]
            if "calls" in names:
                break
            d = single_def(cb, src[0])
            if d and d[0] == "call" and d[3].args:
                src = raw_operand_place(cb, d[3].args[0])
                hops += 1
            else:
                break
        rec = "calls" in names and pd.postdominates(pushes[0].bb, 0)
    ctx.check(rec, "R04.2", "on_resolved_conflict|records-unconditionally",
              "every callback pushes the conflict into self.calls (post-dominates entry)",
              "on_resolved_conflict does not record every resolved conflict", where(cb))
    prints = [c for c in cb.calls() if (c.path or "").endswith("_print")]
    ctx.check(bool(prints) and all(pd.postdominates(c.bb, 0) for c in prints), "R04.2", "on_resolved_conflict|prints",
              "every callback prints the conflict", "resolved conflicts are no longer printed unconditionally", where(cb))

    pr = find_impl(facts, "priority_of")
    neg = [rv for bi, si, p, rv, line, mac in pr.assigns() if p == [0] and rv[0] == "un" and rv[1] == "Neg"]
    ok = False
    if len(neg) == 1:
        t = operand_term(pr, neg[0][2])
        ok = t[0] == "path" and t[1] == 2 and t[2] and t[2][-1] == "act"
    ctx.check(ok, "R04.4", "priority_of|earlier-production-preferred", "priority is -(rhs.act)",
              "priority_of is not the negated production index: reduce/reduce conflicts are no longer resolved in favour "
              "of the earlier production as documented and reported", where(pr))

    ct = facts.body(M + "calculate_lalr1_parse_table")
    lal = [c for c in ct.calls() if (c.path or "").endswith("Grammar::lalr1")]
    if len(lal) != 1:
        raise AnchorMissing("calculate_lalr1_parse_table: expected one Grammar::lalr1 call")
    cfg_arg = raw_operand_place(ct, lal[0].args[1])
    oks = ok_blocks(ct)
    good = False
    for bi, rv, line in oks:
        t = raw_operand_place(ct, rv[4][0])
        d = single_def(ct, t[0]) if t else None
        if d and d[0] == "assign" and d[3][0] == "agg" and d[3][1] == "tuple" and len(d[3][4]) == 2:
            second = d[3][4][1]
            rp = raw_operand_place(ct, second)
            dd = single_def(ct, rp[0]) if rp else None
            if dd and dd[0] == "call" and (dd[3].path or "").endswith("RefCell::into_inner"):
                src = raw_operand_place(ct, dd[3].args[0])
                names = [e[2] for e in src[1:] if isinstance(e, list) and e[0] == "f"] if src else []
                good = bool(src and cfg_arg) and src[0] == cfg_arg[0] and "calls" in names
    ctx.check(good, "R04.3", "calculate_lalr1_parse_table|returns-recorded-conflicts",
              "Ok((table, config.calls)) with the config that was passed to lalr1",
              "the list of resolved conflicts returned is not the one recorded by the config passed to lalr1", where(ct))
    # lalr1 Err is propagated: the `?` on map_err(lalr1(..)) result
    prop = False
    for d in range(len(ct.blocks)):
        k = classify_switch(ct, d)
        if k and k[0] == "qm":
            src = operand_term(ct, k[1].args[0])
            hops = 0
            while src[0] == "call" and hops < 3:
                if src[1].bb == lal[0].bb:
                    prop = True
                    break
                src = operand_term(ct, src[1].args[0]) if src[1].args else ("unknown",)
                hops += 1
    dom = cfg.Dom(ct)
    ctx.check(prop and all(dom.dominates(lal[0].bb, bi) for bi, _r, _l in oks), "R04.3",
              "calculate_lalr1_parse_table|construction-error-propagated",
              "the Err of Grammar::lalr1 is propagated with `?` and Ok is dominated by the lalr1 call",
              "an unresolvable conflict reported by lalry is not propagated as an error", where(ct, lal[0].line))
    # conversion of the table keeps every state: the loop pushes each converted state
    conv = [b for b in facts.in_crate(PA) if b.path.startswith("<parol::analysis::lalr1_parse_table::LRParseTable as std::convert::From<")]
    ctx.check(len(conv) == 1, "R04.3", "LRParseTable::from|exists", "table conversion found", "table conversion missing",
              nontrivial=False)
    # R04.5: isolation of the start symbol (C12's rules; keys keep their R12.x names)
    from . import c12
    c12.check(ctx)
    # R04.6 = C18's rules (added after seed C04-b): the grammar handed to lalry identifies terminals by parol's terminal numbers;
    # a conversion that merges distinct terminals (same text, other look-ahead) builds the table of another grammar
    from . import c18
    c18.check(ctx)
