"""C28 Renaming a symbol in the language server is a consistent renaming - thin: every occurrence kind is collected.

R28.1 role table (frozen, fail closed on a new AST field of type Identifier / IdentifierList): every field that holds
      a non-terminal name or a scanner-state name is handed to add_non_terminal_ref / add_scanner_state_ref (list
      fields: head *and* tail elements) somewhere in parol_ls_grammar.rs.  An occurrence kind that is not collected is
      not renamed.
R28.2 rename builds its edits from find_references of the same symbol table that prepare_rename consulted, refuses the
      start symbol / INITIAL in both, and every edit's new_text is the requested name.
R28.3 collection is unconditional: a collecting call depends only on `?`, loop conditions and matches on the enum
      variants on the path to the identifier (not on AST-control decorations such as the cut operator).
R28.4 kind / table pairing: the symbol kind under the cursor comes from the table its position was found in (never from a
      lookup by name - the name spaces overlap), and every match arm on the kind consults only that kind's table.
Fresh-name checks and 'nothing else changed' are value properties and NOT decided.
"""
from ..callgraph import CallGraph
from ..dataflow import operand_term, raw_operand_place, raw_place, single_def
from ..facts import AnchorMissing
from .common import LS, where, short, fn_key, all_places, str_consts

CRATES = ["parol_ls.bin"]

META = {
    "explanation": "Decides completeness of reference collection by occurrence kind: each AST field that can hold a "
                   "non-terminal or scanner-state name flows into the corresponding reference table, including the tail "
                   "elements of identifier lists; rename and prepare_rename agree on the tables and on the refused symbols.",
}

T = "parol_ls::parol_ls_grammar_trait::"
G = "parol_ls::parol_ls_grammar::ParolLsGrammar::"
NT_REF = {G + "add_non_terminal_ref", G + "add_non_terminal_definition"}
ST_REF = {G + "add_scanner_state_ref", G + "add_scanner_state_definition"}
ROLES = {
    ("StartDeclaration", "identifier"): "nt",
    ("ProductionLHS", "identifier"): "nt",
    ("NonTerminal", "identifier"): "nt",
    ("DeclarationPercentNtUnderscoreTypeNtNameEquNtType", "nt_name"): "nt",
    ("ScannerDirectivesPercentSkipIdentifierList", "identifier_list"): "nt-list",
    ("ScannerDirectivesPercentOnIdentifierListScannerStateDirectives", "identifier_list"): "nt-list",
    ("ScannerState", "identifier"): "state",
    ("TokenWithStates", "identifier_list"): "state-list",
    ("ScannerStateDirectivesPercentEnterIdentifier", "identifier"): "state",
    ("ScannerStateDirectivesPercentPushIdentifier", "identifier"): "state",
    ("DeclarationPercentUserUnderscoreTypeIdentifierEquUserTypeName", "identifier"): "user-type-alias (not renamable)",
    ("MemberName", "identifier"): "member name (not a symbol)",
    ("UserTypeName", "identifier"): "type path segment",
    ("UserTypeNameList", "identifier"): "type path segment",
    ("IdentifierList", "identifier"): "container",
    ("IdentifierList", "identifier_list_list"): "container",
    ("IdentifierListList", "identifier"): "container",
}


def _iter_source_fields(facts, closure_body):
    """[(adt short, field)] on the place that the iterator driving `closure_body` (fold / for_each / map ...) ranges over"""
    from .common import closure_of_arg_any
    if closure_body.kind != "Closure" or not closure_body.parent:
        return []
    parent = facts.body_by_path_opt(closure_body.parent)
    if parent is None:
        return []
    out = []
    for c in parent.calls():
        if closure_of_arg_any(facts, parent, c) is not closure_body or not c.args:
            continue
        rp = raw_operand_place(parent, c.args[0])
        hops = 0
        while rp is not None and hops < 8:
            out += [(e[3].replace(T, ""), e[2]) for e in rp[1:] if isinstance(e, list) and e[0] == "f"]
            d = single_def(parent, rp[0])
            if d and d[0] == "call" and d[3].args:
                rp = raw_operand_place(parent, d[3].args[0])
                hops += 1
                continue
            break
    return out


def ref_calls(facts):
    """[(body, call, kind, [(adt short, field)] of the argument place)]"""
    out = []
    for b in facts.in_crate(LS):
        for c in b.calls():
            kind = "nt" if c.names() & NT_REF else "state" if c.names() & ST_REF else None
            if not kind or len(c.args) < 2:
                continue
            rp = raw_operand_place(b, c.args[1])
            path = []
            hops = 0
            while rp is not None and hops < 6:
                path = [(e[3].replace(T, ""), e[2]) for e in rp[1:] if isinstance(e, list) and e[0] == "f"] + path
                d = single_def(b, rp[0])
                if d and d[0] == "call" and d[3].args and (d[3].names() & {"std::ops::Deref::deref", "std::clone::Clone::clone"}):
                    rp = raw_operand_place(b, d[3].args[0])
                    hops += 1
                    continue
                break
            out.append((b, c, kind, path, rp[0] if rp else None))
    return out


def check(ctx):
    facts = ctx.facts()
    # fail closed on unknown identifier-bearing fields
    for k, a in sorted(facts.adts.items()):
        if not k.startswith(T) or k.endswith("ASTType"):
            continue
        for v in a["variants"]:
            for fn, ft in v["fields"]:
                if a["kind"] == "enum":
                    continue
                if ft in (T + "Identifier", T + "IdentifierList") or "IdentifierListList" in ft:
                    key = (k[len(T):], fn)
                    ctx.check(key in ROLES, "R28.1", "%s.%s|role-known" % key,
                              "role: %s" % ROLES.get(key), "AST field %s.%s holds an identifier but has no role in the rename "
                              "table: decide whether it names a non-terminal or scanner state (fail closed)" % key,
                              "crates/parol-ls/src/parol_ls_grammar_trait.rs", nontrivial=False)
    calls = ref_calls(facts)
    ctx.count("reference_call_sites", len(calls))
    for (st, fld), role in sorted(ROLES.items()):
        if role not in ("nt", "state", "nt-list", "state-list"):
            continue
        kind = "nt" if role.startswith("nt") else "state"
        hits = [(b, c, path, root) for b, c, k2, path, root in calls if k2 == kind and (st, fld) in path]
        if role in ("nt", "state"):
            ctx.check(bool(hits), "R28.1", "%s.%s|collected" % (st, fld),
                      "%s.%s is handed to the %s reference table" % (st, fld, kind),
                      "occurrences of a %s name in %s.%s are never added to the reference table: a rename leaves them "
                      "unchanged" % ("non-terminal" if kind == "nt" else "scanner state", st, fld),
                      hits and where(hits[0][0], hits[0][1].line) or "crates/parol-ls/src/parol_ls_grammar.rs")
            continue
        # list roles: head via owner.field.identifier ; tail via IdentifierListList.identifier inside the same root function
        heads = [h for h in hits if ("IdentifierList", "identifier") in h[2]]
        roots = {h[0].root_fn(facts).path for h in hits} or \
            {b.root_fn(facts).path for b in facts.in_crate(LS)
             for _bi, _k, p, _l in all_places(b)
             if any(isinstance(e, list) and e[0] == "f" and e[3] == T + st and e[2] == fld for e in p[1:])}
        # a tail collector belongs to *this* list: the closure that collects IdentifierListList.identifier is driven by an
        # iterator over <st>.<fld>.identifier_list_list (two lists handled in one function must not vouch for each other)
        tails = [(b, c) for b, c, k2, path, root in calls if k2 == kind and ("IdentifierListList", "identifier") in path
                 and b.root_fn(facts).path in roots and (st, fld) in _iter_source_fields(facts, b)]
        # chain idiom: [head.clone()].iter().chain(list.iter().map(|id| &id.identifier.identifier)).for_each(add_ref)
        chained = []
        for b, c, k2, path, root in calls:
            if k2 == kind and b.kind == "Closure" and b.root_fn(facts).path in roots and not path:
                fam = facts.family(b.root_fn(facts))
                reads_tail = any(("IdentifierListList", "identifier") == (e[3].replace(T, ""), e[2])
                                 for fb in fam for _bi, _k, p, _l in all_places(fb) for e in p[1:] if isinstance(e, list) and e[0] == "f")
                reads_head = any((st, fld) == (e[3].replace(T, ""), e[2])
                                 for fb in fam for _bi, _k, p, _l in all_places(fb) for e in p[1:] if isinstance(e, list) and e[0] == "f")
                if reads_tail and reads_head:
                    chained.append((b, c))
        ok_head = bool(heads) or bool(chained)
        ok_tail = bool(tails) or bool(chained)
        ctx.check(ok_head, "R28.1", "%s.%s|head-collected" % (st, fld),
                  "the first identifier of the list is collected", "the first identifier of %s.%s is not added to the %s "
                  "reference table" % (st, fld, kind), "crates/parol-ls/src/parol_ls_grammar.rs")
        ctx.check(ok_tail, "R28.1", "%s.%s|tail-collected" % (st, fld),
                  "the remaining identifiers of the list are collected", "the identifiers after the first one in %s.%s are "
                  "not added to the %s reference table: renaming misses them" % (st, fld, kind),
                  "crates/parol-ls/src/parol_ls_grammar.rs")

    r28_3(ctx, facts, calls)

    r28_4(ctx, facts)
    # ---------------------------------------------------------------- R28.2
    rn = facts.body(G + "rename")
    pr = facts.body(G + "prepare_rename")
    fam = facts.family(rn)

    def tables_read(bodies):
        out = set()
        for b in bodies:
            for bi, kind, p, line in all_places(b):
                for e in p[1:]:
                    if isinstance(e, list) and e[0] == "f" and e[2] in ("non_terminal_definitions", "scanner_state_definitions",
                                                                         "user_type_definitions"):
                        out.add(e[2])
        return out
    t_rn, t_pr = tables_read(fam), tables_read(facts.family(pr))
    fr = [c for b in fam for c in b.calls() if (c.path or "").endswith("SymbolDefs::find_references")]
    recv = set()
    for b in fam:
        for c in b.calls():
            if (c.path or "").endswith("SymbolDefs::find_references"):
                rp = raw_operand_place(b, c.args[0])
                recv |= {e[2] for e in (rp or [0])[1:] if isinstance(e, list) and e[0] == "f"}
    ctx.check({"non_terminal_definitions", "scanner_state_definitions"} <= recv, "R28.2", "rename|edits-from-find_references",
              "rename collects its edits with find_references on the non-terminal and scanner-state tables",
              "rename does not build its edits from find_references of both symbol tables (%s)" % sorted(recv), where(rn))
    refuse_rn = {s for b in fam for s, _l in str_consts(b)} & {"INITIAL"}
    refuse_pr = {s for b in facts.family(pr) for s, _l in str_consts(b)} & {"INITIAL"}
    ss_rn = any(any(isinstance(e, list) and e[0] == "f" and e[2] == "start_symbol" for e in p[1:])
                for b in fam for _bi, _k, p, _l in all_places(b))
    ss_pr = any(any(isinstance(e, list) and e[0] == "f" and e[2] == "start_symbol" for e in p[1:])
                for b in facts.family(pr) for _bi, _k, p, _l in all_places(b))
    ctx.check(refuse_rn == refuse_pr == {"INITIAL"} and ss_rn and ss_pr, "R28.2", "rename|refusals-agree",
              "rename and prepare_rename both refuse the start symbol and INITIAL",
              "rename and prepare_rename disagree about the symbols that must not be renamed", where(rn))
    # new_text of every TextEdit is params.new_name
    edits = []
    for b in fam:
        for bi, si, p, rv, line, mac in b.assigns():
            if rv[0] == "agg" and rv[2] == "lsp_types::TextEdit":
                t = operand_term(b, rv[4][1])
                ok = t[0] == "call" and "std::clone::Clone::clone" in t[1].names()
                if ok:
                    rp = raw_operand_place(b, t[1].args[0])
                    names = [e[2] for e in (rp or [0])[1:] if isinstance(e, list) and e[0] == "f"]
                    ok = names[-1:] == ["new_name"] or any("new_name" in n for n in names)
                edits.append((ok, line, b))
    ctx.check(edits and all(e[0] for e in edits), "R28.2", "rename|new-text-is-requested-name",
              "every TextEdit carries params.new_name", "a TextEdit of rename does not carry the requested new name",
              where(rn))


# ---------------------------------------------------------------------------------------------------- R28.3
def r28_3(ctx, facts, calls):
    """collection is unconditional: a reference-collecting call (or the iterator call that drives the collecting closure)
    may depend only on `?`, loop conditions and matches on the enum variants that lie on the path to the identifier"""
    from .common import transitive_control_deps, control_dependence_no_errors, classify_switch
    from ..dataflow import place_term, operand_term as _ot
    done = set()
    n = 0
    for b, c, kind, path, root_local in calls:
        host = b
        site_blocks = [c.bb]
        arg_places = []
        rp = raw_operand_place(b, c.args[1])
        if rp:
            arg_places.append(rp)
        if b.kind == "Closure":
            # judge the call in the root function that consumes the closure
            rootf = b.root_fn(facts)
            host = rootf
            site_blocks = []
            for cc in rootf.calls():
                if (cc.path or "").split("::")[-1] in ("for_each", "fold", "try_for_each", "map", "for_each_mut"):
                    for a in cc.args:
                        if a[0] in ("c", "m"):
                            d = single_def(rootf, a[1][0])
                            if d and d[0] == "assign" and d[3][0] == "agg" and d[3][1] == "closure" and \
                                    (d[3][2] == b.path or b.path.startswith(d[3][2])):
                                site_blocks.append(cc.bb)
            # places the closure family reads through its captures are not visible here: allow variant matches on
            # prefixes of any place of the root function that reaches the identifier lists
            for bi, k2, p, line in all_places(rootf):
                if any(isinstance(e, list) and e[0] == "f" and e[2] in ("identifier_list", "identifier_list_list", "identifier")
                       for e in p[1:]):
                    arg_places.append(raw_place(rootf, p))
        key = (host.path, tuple(site_blocks))
        if key in done or not site_blocks:
            continue
        done.add(key)
        n += 1
        cd = control_dependence_no_errors(host)
        offenders = []
        for blk in site_blocks:
            for a, s, k in transitive_control_deps(host, blk, cd=cd):
                if k is None or k[0] == "qm":
                    continue
                if k[0] == "disc-call" and "std::iter::Iterator::next" in k[1].names():
                    continue
                if k[0] == "disc":
                    # discriminant of a prefix of the path to the identifier -> selecting the variant that owns it
                    sw = host.term(a)
                    dp = None
                    for st in host.stmts(a):
                        if st[0] == "a" and st[2][0] == "disc" and sw[1][0] in ("c", "m") and sw[1][1] == st[1]:
                            dp = raw_place(host, st[2][1])
                    def is_prefix(p, q):
                        pe = [e for e in p[1:] if e != "*"]
                        qe = [e for e in q[1:] if e != "*"]
                        return p[0] == q[0] and len(pe) <= len(qe) and all(
                            (x == y) or (isinstance(x, list) and isinstance(y, list) and x[:3] == y[:3]) for x, y in zip(pe, qe))
                    if dp is not None and any(is_prefix(dp, q) for q in arg_places):
                        continue
                    offenders.append("match on %s" % ".".join(e[2] for e in (dp or [0])[1:] if isinstance(e, list) and e[0] == "f"))
                    continue
                offenders.append(k[0])
        ctx.check(not offenders, "R28.3", "%s|collection-unconditional" % fn_key(host, facts),
                  "reference collection in %s depends only on the variant that owns the identifier" % short(host.path).split("::")[-1],
                  "reference collection in %s is skipped depending on %s: occurrences of the symbol in such contexts are not "
                  "renamed" % (short(host.path), sorted(set(offenders))), where(host, host.line_of_block(site_blocks[0])))
    ctx.require_floor("R28.3", "collection_sites", n, 8)


# ------------------------------------------------------------------------------------------------------------------ R28.4
G = "parol_ls::parol_ls_grammar::ParolLsGrammar::"
KIND = "parol_ls::parol_ls_grammar::SymbolDefsType"
KIND_TABLE = {"NonTerminal": "non_terminal_definitions", "UserType": "user_type_definitions",
              "ScannerState": "scanner_state_definitions", "Terminal": "terminal_type"}


def _table_fields(place):
    return [e[2] for e in (place or [])[1:] if isinstance(e, list) and e[0] == "f" and e[2] in KIND_TABLE.values()]


def r28_4(ctx, facts):
    """R28.4 kind / table pairing (added after seed C28-b).  Non-terminals, user types and scanner states live in separate name
    spaces, so one identifier may denote several symbols; which one the cursor is on is known only from the table its position
    was found in.  (a) producer: in ident_at_position every SymbolDefsType::V value is built in the closure that maps the hit of
    `self.<TABLE[V]>.find_reference(position)`, and no kind is obtained from a call (e.g. a lookup by name); (b) consumer: in
    every match on the kind (rename, ...) the arm for V reads no other table than TABLE[V]."""
    from .. import cfg
    from .common import closure_of_arg_any, only_via_edge
    variants = [v["name"] for v in facts.adt(KIND)["variants"]]
    if sorted(variants) != sorted(KIND_TABLE):
        raise AnchorMissing("SymbolDefsType variants changed: %s (re-confirm the kind/table pairing)" % variants)
    iap = facts.body(G + "ident_at_position")
    fam = facts.family(iap)
    paired = {}
    for cl in fam:
        aggs = [(rv[3], line) for bi, si, p, rv, line, mac in cl.assigns() if rv[0] == "agg" and rv[2] == KIND]
        for v, line in aggs:
            # the call that receives this closure
            site = None
            for B in fam:
                for c in B.calls():
                    if closure_of_arg_any(facts, B, c) is cl:
                        site = (B, c)
            tab = None
            if site:
                B, c = site
                t = operand_term(B, c.args[0]) if c.args else ("unknown",)
                if t[0] == "call" and (t[1].path or "").split("::")[-1] in ("find_reference", "find_reference_range"):
                    tf = _table_fields(raw_operand_place(B, t[1].args[0]))
                    tab = tf[-1] if tf else None
            ok = site is not None and (site[1].path or "").split("::")[-1] == "map" and tab == KIND_TABLE[v]
            paired[v] = paired.get(v, 0) + (1 if ok else 0)
            ctx.check(ok, "R28.4", "ident_at_position|%s|kind-from-table" % v,
                      "SymbolDefsType::%s is attached to the hit of %s.find_reference(position)" % (v, KIND_TABLE[v]),
                      "SymbolDefsType::%s is attached to a hit of %s (expected the table %s): an identifier that exists in two "
                      "name spaces is classified by the wrong table" % (v, tab or "no position lookup", KIND_TABLE[v]),
                      where(cl, line))
    missing = [v for v in variants if not paired.get(v)]
    computed = []
    for B in fam:
        for c in B.calls():
            if c.dest and len(c.dest) == 1 and KIND in B.local_ty(c.dest[0]) and not B.local_ty(c.dest[0]).startswith("std::option"):
                computed.append((B, c))
            elif c.dest and len(c.dest) == 1 and B.local_ty(c.dest[0]) == KIND:
                computed.append((B, c))
    ctx.check(not missing and not computed, "R28.4", "ident_at_position|kind-only-from-position-lookup",
              "all four kinds come from the table the position was found in; no kind is computed by a call",
              "ident_at_position obtains the symbol kind %s instead of from the table the cursor position was found in: a scanner "
              "state that shares its name with a non-terminal is renamed as the non-terminal"
              % ("from %s" % ", ".join(short(c.path or "?") for _b, c in computed) if computed else "for %s nowhere" % missing),
              where(iap))
    # consumers
    n = 0
    for b in facts.in_crate(LS):
        if not b.path.startswith(G) and b.root_fn(facts).path[:len(G)] != G:
            continue
        for d in range(len(b.blocks)):
            t = b.term(d)
            if t[0] != "switch":
                continue
            is_kind = False
            for s in b.stmts(d):
                if s[0] == "a" and s[2][0] == "disc" and t[1][0] in ("c", "m") and t[1][1] == s[1]:
                    if KIND in b.local_ty(s[2][1][0]):
                        is_kind = True
            if not is_kind:
                continue
            arms = {}
            for v, tg in t[2]:
                if isinstance(v, int) and v < len(variants):
                    arms[variants[v]] = (v, tg)
            if len(arms) < 2:
                continue
            for v, (vi, tg) in arms.items():
                blocks = {x for x in cfg.reachable_from(b, tg, avoid_blocks=[d]) if only_via_edge(b, d, {vi}, x)}
                foreign = set()
                for bi, kind, p, line in all_places(b):
                    if bi in blocks:
                        for f in _table_fields(p):
                            if f != KIND_TABLE[v]:
                                foreign.add(f)
                n += 1
                ctx.check(not foreign, "R28.4", "%s|arm-%s|table" % (short(b.path), v),
                          "the %s arm consults only %s" % (v, KIND_TABLE[v]),
                          "the %s arm reads %s: references of another name space are edited" % (v, sorted(foreign)),
                          where(b, b.line_of_block(tg)))
    ctx.require_floor("R28.4", "kind_match_arms", n, 4)
