"""C26 parol never panics on any grammar text - partial: explicit panic inventory.

R26.1 panic_sites_reach: the explicit panic constructs (unwrap/expect on Option/Result, panic!/unreachable!/
      unimplemented!/todo!/assert*!) reachable in the parol library from the pipeline entry points (parse, grammar
      configuration, check/transform, look-ahead and LALR analysis, all generators, the Builder) must be exactly the
      frozen per-function table tables/c26_panics.json.  Classes: reviewed-safe (reason given), known (input-reachable,
      listed in known_findings.json), baseline-unreviewed (counted and frozen).  A site that is not in the table - a
      new unwrap/expect/panic on the generation path - is a violation.
R26.2 error discipline of the reader: the semantic actions of the grammar reader (parol_grammar.rs) and
      to_grammar_config.rs return Result; `?`/bail! are the reporting idiom - these two modules must stay within their
      frozen site counts *and* every site there is reviewed (no baseline-unreviewed entries allowed).
R26.5 the per-k analysis caches have a slot for every admissible k (const relation, = C06 R06.4).
R26.6 decidable validates its lookahead limit against MAX_K before the first cache access (= C06 R06.5).
R26.7 guard of the reviewed `expect` in Cfg::get_non_terminal_ordering ("Start symbol not found in any production"): it cannot
      fire only while the productivity check sees the start symbol, i.e. while Cfg::get_non_terminal_set puts self.st into the
      set on every path (an undefined start symbol is then reported as non-productive before any analysis runs).
R26.4 unsigned-subtraction inventory on the same reachable set: each overflow-checked `a - b` is discharged by a dominating
      guard a >= b (subguard.py) or reviewed in SUB_TABLE.
Other implicit panics (indexing, additions, RefCell borrows, stack overflow) depend on value ranges: NOT decided.
"""
import json
import os

from ..callgraph import CallGraph
from ..facts import AnchorMissing
from .common import PA, where, short, fn_key
from .panics import panic_sites, assert_terminators

CRATES = ["parol.lib", "parol_runtime.lib"]

META = {
    "explanation": "Decides that no *new* explicit panic construct can appear on the grammar-processing path unnoticed: "
                   "inventory over the call graph from the pipeline entry points, compared as a per-function multiset "
                   "with a frozen table whose entries are classified (reviewed-safe / known finding / baseline). "
                   "It does not prove absence of panics: baseline-unreviewed entries are stated as such, implicit panics "
                   "are out of reach of this family.",
}

ENTRY_EXACT = {
    "parol::parser::parol_parser::parse", "parol::obtain_grammar_config", "parol::obtain_grammar_config_from_string",
    "parol::generators::grammar_trans::check_and_transform_grammar",
    "parol::generators::grammar_trans::check_and_transform_grammar_with_ignored",
    "parol::analysis::k_decision::calculate_lookahead_dfas",
    "parol::analysis::lalr1_parse_table::calculate_lalr1_parse_table",
    "parol::conversions::par::grammar_to_par::render_par_string",
}
REVIEWED_MODULES = ("parser::to_grammar_config", "parser::parol_grammar", "generators::grammar_trans")
TABLE = os.path.join(os.path.dirname(os.path.dirname(os.path.dirname(os.path.abspath(__file__)))), "tables", "c26_panics.json")


SUB_TABLE = {
    "parol|analysis::k_tuple|Terminals::k_concat":
        (1, "k - my_k_len after the early return for is_k_complete(k): a k-incomplete tuple is shorter than k"),
    "parol|generators::cs_lexer_generator|generate_dfa":
        (1, "num_classes - 1 inside the loop over the num_classes transition slots (the loop body runs only if there is one)"),
    "parol|generators::scanner_config|ScannerConfig::generate_build_information":
        (1, "terminal_names.len() - 1: the table always starts with the five built-in terminals"),
    "parol|generators::symbol_table|SymbolTable::get_or_create_scoped_user_defined_type":
        (1, "user_defined_type.len() - 1: a UserDefinedTypeName parsed from a grammar has at least one identifier"),
    "parol|generators::user_trait_generator|UserTraitGenerator::generate_stack_pops":
        (1, "member_count - 1 inside the loop over the members"),
}


def entries(facts):
    return [b for b in facts.in_crate(PA) if b.kind != "Closure" and
            (b.path in ENTRY_EXACT or b.path.startswith("parol::build::Builder::") or
             (b.module.startswith("parol::generators") and "::generate_" in b.path))]


def inventory(ctx):
    facts = ctx.facts()
    cg = CallGraph(facts)
    ents = entries(facts)
    seen = cg.reach(ents, crates=[PA])
    ctx.counters["entry_points"] = len(ents)
    ctx.counters["functions_analysed"] = len(seen)
    found = {}
    asserts = {}
    for k, (b, pk, info) in seen.items():
        for kind, cons, line in panic_sites(b):
            if kind == "debug":
                continue
            found.setdefault("%s|%s" % (fn_key(b, facts), cons), []).append((b, line))
        for k2, v in assert_terminators(b).items():
            asserts[k2] = asserts.get(k2, 0) + v
    ctx.counters["mir_asserts_counted_not_judged"] = sum(asserts.values())
    ctx._cg = cg
    ctx._seen = seen
    return found


def check(ctx):
    try:
        table = json.load(open(TABLE))
    except FileNotFoundError:
        raise AnchorMissing("tables/c26_panics.json missing")
    found = inventory(ctx)
    cg, seen = ctx._cg, ctx._seen
    classes = {}
    for key, sites in sorted(found.items()):
        e = table.get(key)
        b, line = sites[0]
        if e is None:
            ctx.bad("R26.1", key, "explicit panic construct on the grammar-processing path that is not in the frozen "
                    "table (lines %s); call chain: %s" % ([l for _b, l in sites],
                                                          " -> ".join(short(x) for x in cg.chain(seen, b)[-5:])), where(b, line))
            continue
        if len(sites) > e["count"]:
            ctx.bad("R26.1", key + "|count", "%d explicit panic sites where the frozen table has %d (lines %s)"
                    % (len(sites), e["count"], [l for _b, l in sites]), where(b, sites[-1][1]))
            continue
        classes[e["class"]] = classes.get(e["class"], 0) + len(sites)
        if e["class"] == "known":
            ctx.bad("R26.1", key, e["reason"], where(b, line))      # listed in known_findings.json -> KNOWN-FINDING
        else:
            ctx.ok("R26.1", key, "%s: %s" % (e["class"], e["reason"] or "frozen baseline"), where(b, line),
                   nontrivial=(e["class"] == "reviewed-safe"))
        mod = key.split("|")[1]
        if mod in REVIEWED_MODULES and e["class"] == "baseline-unreviewed":
            ctx.bad("R26.2", key + "|unreviewed-in-reader", "a panic site in the grammar reader / conversion module is "
                    "not reviewed", where(b, line))
    ctx.counters.update({"sites_" + k.replace("-", "_"): v for k, v in classes.items()})
    ctx.require_floor("R26.1", "reachable_functions", len(seen), 900)
    ctx.require_floor("R26.1", "panic_sites", sum(len(v) for v in found.values()), 100)

    from . import subguard
    subguard.inventory(ctx, ctx.facts(), cg, seen, "R26.4", SUB_TABLE, 6, what="grammar-processing path")

    # R26.5 = C06 R06.4: the per-k caches have MAX_K + 1 slots (an index panic otherwise; added after seed C26-b)
    from . import c06
    c06.cache_capacity(ctx, ctx.facts(), rule="R26.5")
    c06.limit_validated(ctx, ctx.facts(), rule="R26.6")

    start_symbol_in_non_terminal_set(ctx, ctx.facts())

    # R26.3: reviewed-safe entries that rest on another property's rule are re-evaluated here
    # (the unwrap in Cfg::get_terminal_index_function cannot fire only while the lookup key equals the de-duplication key)
    from . import c18
    c18.check(ctx)



def start_symbol_in_non_terminal_set(ctx, facts):
    """R26.7 (added after seed C26-c)"""
    from .. import cfg as cfgmod
    from ..dataflow import raw_operand_place, forward_derived
    CFG = "parol::grammar::cfg::Cfg"
    b = facts.body(CFG + "::get_non_terminal_set")
    dom = cfgmod.Dom(b)
    rets = b.return_blocks()
    BUILD = {"insert", "once", "chain", "extend", "push", "from", "from_iter", "extend_one"}
    ok = False
    where_ = where(b)
    for bi, si, p, rv, line, mac in b.assigns():
        src = rv[-1] if rv[0] in ("ref", "cfd") else (rv[1][1] if rv[0] == "use" and rv[1][0] in ("c", "m") else None)
        if not src:
            continue
        from ..dataflow import raw_place
        rp = raw_place(b, src)
        if not (rp[0] == 1 and any(isinstance(e, list) and e[0] == "f" and e[2] == "st" and e[3] == CFG for e in rp[1:])):
            continue
        der = forward_derived(b, [p[0]])
        for c in b.calls():
            if (c.path or "").split("::")[-1] in BUILD and any(a[0] in ("c", "m") and a[1][0] in der for a in c.args):
                if all(dom.dominates(c.bb, r) for r in rets):
                    ok = True
                    where_ = where(b, c.line)
    # also accept the start symbol read directly as a call argument (no intermediate assignment)
    for c in b.calls():
        for a in c.args:
            rp = raw_operand_place(b, a)
            if rp and rp[0] == 1 and any(isinstance(e, list) and e[0] == "f" and e[2] == "st" and e[3] == CFG for e in rp[1:]):
                der = forward_derived(b, [c.dest[0]])
                for c2 in b.calls():
                    if (c2.path or "").split("::")[-1] in BUILD and any(x[0] in ("c", "m") and x[1][0] in der for x in c2.args) \
                            and all(dom.dominates(c2.bb, r) for r in rets):
                        ok = True
                        where_ = where(b, c2.line)
    ctx.check(ok, "R26.7", "Cfg::get_non_terminal_set|contains-start-symbol",
              "the start symbol is put into the non-terminal set on every path",
              "Cfg::get_non_terminal_set no longer puts the start symbol (self.st) into the set unconditionally: a start symbol "
              "without productions is then invisible to the productivity check, and the `expect(\"Start symbol not found in any "
              "production\")` in Cfg::get_non_terminal_ordering panics for such a grammar (e.g. one whose other non-terminals are "
              "unreferenced %skip primaries)", where_)
