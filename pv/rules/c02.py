"""C02 LL(k) parse trees and semantic actions follow the leftmost derivation - the stack discipline.

R02.1 who_may_call(UserActionsTrait::call_semantic_action_for_production_number) in the LL parser: only
      process_item_stack; process_item_stack is called only from parse_into, only on the `E` edge of the match on the
      stack top, with that marker's production number.
R02.2 push_production: the push of the end marker E(prod_num) dominates the loop that pushes
      productions[prod_num].production; the loop iterates the slice forward (the generator stores right-hand sides
      reversed, see C21 R21.2) and both use the same prod_num.
R02.3 process_item_stack: split_off(parse_tree_stack.len() - productions[prod_num].production.len()) with the same
      prod_num that is handed to the semantic action; the children passed are exactly that split.
R02.4 who_may_write(LLKParser.parse_tree_stack): push(N) in push_production, push(T(token)) in the T arm after consume,
      split_off in process_item_stack - nothing else.
R02.7 the returned tree is built in prediction order: in the LL parser TreeConstruct::open_non_terminal is called only by
      push_production (the production's node, named by the lhs of the same prod_num as the E marker, on every path that does
      not trim) and by parse_into (the root, before the loop); close_non_terminal only by process_item_stack (every non-trim
      path) and parse_into (root, behind the loop); add_token only by parse_into's T arm and handle_additional_tokens.  A node
      that is opened anywhere else is not opened when its production is predicted, i.e. not below its parent.
R02.5 T arm order: handle_additional_tokens -> consume -> pop parser stack -> push tree stack, each dominating the
      next, all on the `token_type == t` edge.
"""
from .. import cfg
from ..callgraph import CallGraph
from ..dataflow import operand_term, raw_operand_place, raw_place, term_str, single_def
from ..facts import AnchorMissing
from .common import (RT, where, short, fn_key, classify_switch, only_via_edge, recv_fields, who_may_call, callers_of)
from . import ll

CRATES = ["parol_runtime.lib"]

META = {
    "explanation": "Decides the push-down discipline that makes the LL parse a leftmost derivation: one semantic-action "
                   "call site, reached exactly when an end-of-production marker is popped, with the children count of "
                   "that production; the marker is pushed below the production's symbols; the tree stack is written at "
                   "three places only. Whether the generated tables are right is C21/C07.",
}

PTS = "parol_runtime::parser_common::parse_tree_stack::ParseTreeStack::"


def prod_index_local(body, place):
    """if place is productions[X].production... return the local X"""
    rp = raw_place(body, place)
    idx = [e for e in rp[1:] if isinstance(e, list) and e[0] == "i"]
    names = [e[2] for e in rp[1:] if isinstance(e, list) and e[0] == "f"]
    if "productions" in names and idx:
        l = idx[0][1]
        r = raw_place(body, [l])
        return r[0] if len(r) == 1 else None
    return None


def check(ctx):
    facts = ctx.facts()
    cg = CallGraph(facts)
    pi = facts.body(ll.PARSE_INTO)
    pp = facts.body(ll.PUSH_PRODUCTION)
    ps = facts.body(ll.PROCESS_ITEM_STACK)
    ctx.count("functions_analysed", 3)

    # ---------------------------------------------------------------- R02.1
    sites = [(b, c) for b, c in callers_of(facts, [ll.USER_ACTION], [RT]) if b.path.startswith(ll.P)]
    for b, c in sites:
        ctx.check(b.root_fn(facts).path == ll.PROCESS_ITEM_STACK, "R02.1", "%s|calls-semantic-action" % fn_key(b, facts),
                  "the semantic action is called from process_item_stack",
                  "the LL parser calls a semantic action from %s: actions would no longer be one per production "
                  "application in post-order" % short(b.path), where(b, c.line))
    ctx.require_floor("R02.1", "ll_action_call_sites", len(sites), 1)
    ctx.check(len(sites) == 1, "R02.1", "process_item_stack|single-action-call",
              "exactly one semantic-action call site in the LL parser", "there are %d semantic-action call sites in the LL "
              "parser (an action could run twice for one production)" % len(sites), where(ps))
    pcalls = [(b, c) for b, c in callers_of(facts, [ll.PROCESS_ITEM_STACK], [RT])]
    vidx = [v["name"] for v in facts.adt(ll.PARSE_TYPE)["variants"]].index("E")
    for b, c in pcalls:
        ok = b.path == ll.PARSE_INTO
        on_e = False
        arg_ok = False
        if ok:
            dom = cfg.Dom(b)
            for d in dom.dominators(c.bb):
                t = b.term(d)
                if t[0] != "switch":
                    continue
                term = operand_term(b, t[1])
                if term[0] == "disc":
                    # discriminant of the cloned stack top
                    if only_via_edge(b, d, {vidx}, c.bb):
                        on_e = True
            rp = raw_operand_place(b, c.args[2]) if len(c.args) > 2 else None
            arg_ok = bool(rp) and any(isinstance(e, list) and e[0] == "d" and e[1] == "E" for e in rp[1:])
        ctx.check(ok and on_e and arg_ok, "R02.1", "%s|process_item_stack-on-E-marker" % fn_key(b, facts),
                  "process_item_stack runs exactly on the `E(p)` edge of the stack-top match, with that p",
                  "process_item_stack is not tied to popping an end-of-production marker (caller=%s on_E_edge=%s "
                  "arg_is_marker_payload=%s)" % (short(b.path), on_e, arg_ok), where(b, c.line))
    ctx.require_floor("R02.1", "process_item_stack_callers", len(pcalls), 1)

    # ---------------------------------------------------------------- R02.2
    dom = cfg.Dom(pp)
    pushes = [c for c in pp.calls() if (c.path or "").endswith("Vec::push") and "stack" in recv_fields(pp, c)
              and "parser_stack" in recv_fields(pp, c)]
    marker = None
    sym = None
    for c in pushes:
        a = c.args[1]
        t = operand_term(pp, a)
        if t[0] == "agg" and t[2] == ll.PARSE_TYPE and t[3] == "E":
            marker = (c, t)
        else:
            sym = c
    if marker is None or sym is None or len(pushes) != 2:
        raise AnchorMissing("push_production: expected exactly two pushes on parser_stack.stack (marker E and symbols), "
                            "found %d" % len(pushes))
    mc, mt = marker
    marker_arg = mt[4][0]
    ctx.check(marker_arg[0] == "path" and marker_arg[1] == 3 and not marker_arg[2], "R02.2", "push_production|marker-is-prod_num",
              "the end marker carries the prod_num argument", "the end marker E(..) does not carry the prod_num argument",
              where(pp, mc.line))
    loop = cfg.loop_containing(pp, sym.bb)
    ctx.check(loop is not None and dom.dominates(mc.bb, sym.bb) and mc.bb not in (loop[1] if loop else ()),
              "R02.2", "push_production|marker-below-symbols",
              "E(prod_num) is pushed before (below) the production's symbols",
              "the end-of-production marker is not pushed before the production's symbols: semantic actions would fire "
              "before the production is complete", where(pp, sym.line))
    # the iterated slice
    it = [c for c in pp.calls() if "std::iter::IntoIterator::into_iter" in c.names() and "ParseType" in c.self_ty]
    revs = [c for c in pp.calls() if (c.path or "").endswith("Iterator::rev")]
    src_ok = False
    if len(it) == 1:
        rp = raw_operand_place(pp, it[0].args[0])
        names = [e[2] for e in rp[1:] if isinstance(e, list) and e[0] == "f"] if rp else []
        idxl = prod_index_local(pp, rp) if rp else None
        src_ok = "production" in names and idxl == 3
    ctx.check(src_ok and not revs, "R02.2", "push_production|symbols-forward-from-same-production",
              "the loop pushes self.productions[prod_num].production in stored order (no rev)",
              "push_production does not push productions[prod_num].production forward (the generator stores the "
              "right-hand side reversed exactly once)", where(pp))
    # pushed element is the loop item
    nx = [c for c in pp.calls() if "std::iter::Iterator::next" in c.names() and c.bb in (loop[1] if loop else ())]
    el_ok = False
    if nx:
        rp = raw_operand_place(pp, sym.args[1])
        el_ok = bool(rp) and rp[0] == nx[0].dest[0]
    ctx.check(el_ok, "R02.2", "push_production|pushes-loop-item", "each pushed symbol is the loop item",
              "the pushed symbol is not the item of the iteration over the production", where(pp, sym.line))

    # ---------------------------------------------------------------- R02.3
    so = [c for c in ps.calls() if c.path == PTS + "split_off"]
    if len(so) != 1:
        raise AnchorMissing("process_item_stack: expected one ParseTreeStack::split_off call, found %d" % len(so))
    t = operand_term(ps, so[0].args[1])
    shape_ok = False
    detail = term_str(ps, t)
    if t[0] == "bin" and t[1] in ("Sub", "SubWithOverflow"):
        a, b2 = t[2], t[3]
    elif t[0] == "proj" and t[1][0] == "bin" and t[1][1].startswith("Sub"):
        a, b2 = t[1][2], t[1][3]
    else:
        a = b2 = None
    if a is not None:
        a_ok = a[0] == "call" and a[1].path == PTS + "len" and "parse_tree_stack" in recv_fields(ps, a[1])
        b_ok = False
        lt = b2
        if lt[0] == "path" and len(lt[2]) == 0:
            # let l = ...len(): resolve the named local
            d = single_def(ps, lt[1])
            if d and d[0] == "call":
                lt = ("call", d[3])
        if lt[0] == "call" and (lt[1].path or "").endswith("::len"):
            rp = raw_operand_place(ps, lt[1].args[0])
            names = [e[2] for e in rp[1:] if isinstance(e, list) and e[0] == "f"] if rp else []
            b_ok = "production" in names and prod_index_local(ps, rp) == 3
        shape_ok = a_ok and b_ok
    ctx.check(shape_ok, "R02.3", "process_item_stack|children-count",
              "split_off(parse_tree_stack.len() - productions[prod_num].production.len())",
              "the number of children taken from the tree stack is not exactly the length of production prod_num "
              "(found %s): a node would get too few/many children" % detail, where(ps, so[0].line))
    ua = ps.calls_to(ll.USER_ACTION)
    arg_ok = False
    if ua:
        p1 = operand_term(ps, ua[0].args[1])
        rp2 = raw_operand_place(ps, ua[0].args[2])
        # children: a borrow / deref of the split_off result
        ch_ok = False
        if rp2:
            d = single_def(ps, rp2[0])
            hops = 0
            while d and d[0] == "call" and d[3].names() & {"std::ops::Deref::deref"} and hops < 3:
                rp2 = raw_operand_place(ps, d[3].args[0])
                d = single_def(ps, rp2[0]) if rp2 else None
                hops += 1
            ch_ok = bool(rp2) and rp2[0] == so[0].dest[0]
        arg_ok = p1[0] == "path" and p1[1] == 3 and ch_ok
    ctx.check(arg_ok, "R02.3", "process_item_stack|action-arguments",
              "the action receives prod_num and exactly the split-off children",
              "the semantic action does not receive (prod_num, the children split off for it)", where(ps))

    # ---------------------------------------------------------------- R02.4
    writes = []
    for b in facts.in_crate(RT):
        if not b.path.startswith(ll.P):
            continue
        for c in b.calls():
            if (c.path or "").startswith(PTS) and "parse_tree_stack" in recv_fields(b, c):
                n = c.path.split("::")[-1]
                if n in ("len", "is_empty", "iter", "last", "fmt"):
                    continue
                writes.append((b, c, n))
    allowed = {(ll.PUSH_PRODUCTION, "push"), (ll.PARSE_INTO, "push"), (ll.PROCESS_ITEM_STACK, "split_off")}
    for b, c, n in writes:
        ctx.check((b.root_fn(facts).path, n) in allowed, "R02.4", "%s|tree-stack-%s" % (fn_key(b, facts), n),
                  "reviewed writer of the LL parse-tree stack",
                  "%s modifies LLKParser.parse_tree_stack (%s): the children of a production are no longer exactly the "
                  "symbols recognised for it" % (short(b.path), n), where(b, c.line))
    ctx.require_floor("R02.4", "tree_stack_writers", len(writes), 3)
    # the N pushed in push_production and T(token) in parse_into
    for b, c, n in writes:
        if n == "push":
            t = operand_term(b, c.args[1])
            want = "N" if b.path == ll.PUSH_PRODUCTION else "T"
            ctx.check(t[0] == "agg" and t[3] == want, "R02.4", "%s|pushes-%s" % (short(b.path).split("::")[-1], want),
                      "pushes ParseTreeType::%s" % want, "unexpected value pushed on the parse-tree stack: %s"
                      % term_str(b, t), where(b, c.line))

    # ---------------------------------------------------------------- R02.5
    dom = cfg.Dom(pi)
    hat = [c for c in pi.calls_to(ll.H_ADDITIONAL)]
    cons = pi.calls_to(ll.TS + "consume")
    pops = [c for c in pi.calls() if (c.path or "").endswith("Vec::pop") and "parser_stack" in recv_fields(pi, c)]
    tpush = [c for b, c, n in writes if b.path == ll.PARSE_INTO and n == "push"]
    if len(cons) != 1 or len(tpush) != 1:
        raise AnchorMissing("parse_into: expected one consume() and one tree-stack push (found %d/%d)"
                            % (len(cons), len(tpush)))
    c0 = cons[0]
    h0 = [h for h in hat if dom.dominates(h.bb, c0.bb)]
    p0 = [p for p in pops if dom.dominates(c0.bb, p.bb) and dom.dominates(p.bb, tpush[0].bb)]
    ctx.check(bool(h0) and bool(p0), "R02.5", "parse_into|T-arm-order",
              "handle_additional_tokens -> consume -> pop -> push(T(token)) in dominance order",
              "the T arm no longer performs skip-token hand-over, consume, pop and tree push in this order", where(pi, c0.line))
    # the whole T-arm success path is on the `token.token_type == t` edge
    eq_gate = None
    for d in dom.dominators(c0.bb):
        k = classify_switch(pi, d)
        if k and k[0] == "bin" and k[1] == "Eq":
            a, b2 = k[2], k[3]
            if any(x[0] in ("path", "proj") and x[2] and x[2][-1] == "token_type" for x in (a, b2)):
                if only_via_edge(pi, d, {v for v, _t in pi.switch_edges(d) if v != 0}, c0.bb):
                    eq_gate = d
    ctx.check(eq_gate is not None, "R02.5", "parse_into|consume-only-on-matching-type",
              "a token is consumed only on the `token.token_type == t` edge",
              "the T arm can consume a token whose type differs from the expected terminal", where(pi, c0.line))
    # the token pushed is the look-ahead token that was compared
    tp = operand_term(pi, tpush[0].args[1])
    ctx.check(tp[0] == "agg" and tp[3] == "T", "R02.5", "parse_into|pushed-token", "T(token) is pushed",
              "unexpected tree-stack push in the T arm", where(pi, tpush[0].line), nontrivial=False)

    tree_nodes_follow_prediction(ctx, facts, pi, pp, ps)
    # ---------------------------------------------------------------- R02.6
    # the derivation is over the input's *significant* tokens: which tokens are significant is decided by the
    # skip classification (C17 R17.1/R17.2), re-evaluated here
    from . import c17
    c17.check(ctx)



def tree_nodes_follow_prediction(ctx, facts, pi, pp, ps):
    """R02.7 (added after seed C02-c)"""
    from .common import guards_on_all_paths
    allowed = {"open_non_terminal": {ll.PUSH_PRODUCTION: "the node of the predicted production", ll.PARSE_INTO: "the root node"},
               "close_non_terminal": {ll.PROCESS_ITEM_STACK: "the node of the finished production", ll.PARSE_INTO: "the root node"},
               "add_token": {ll.PARSE_INTO: "the consumed token", ll.H_ADDITIONAL: "skipped tokens"}}
    sites = {}
    for b in facts.in_crate(RT):
        root = b.root_fn(facts)
        if not root.path.startswith(ll.P):
            continue
        for c in b.calls():
            for nm in c.names():
                if nm.startswith(ll.TC):
                    m = nm[len(ll.TC):]
                    if m not in allowed:
                        continue
                    sites.setdefault((m, root.path), []).append((b, c))
                    ctx.check(root.path in allowed[m], "R02.7", "%s|%s|who-may-call" % (fn_key(b, facts), m),
                              "%s is called by %s (%s)" % (m, short(root.path), allowed[m].get(root.path, "")),
                              "the LL parser calls TreeConstruct::%s from %s: tree nodes are opened when a production is predicted "
                              "(push_production) and closed when it is finished (process_item_stack); a node opened or closed "
                              "elsewhere does not nest below the production that predicted it" % (m, short(root.path)),
                              where(b, c.line))
                    break
    # exactly one site per role, unconditional except for the trim flag (and `?` error exits / the symbol loop's end)
    def only_trim(b, c):
        bad = []
        for a, k, truth in guards_on_all_paths(b, c.bb):
            if not k:
                bad.append(a)
            elif k[0] == "qm":
                continue
            elif k[0] == "field" and k[2] and k[2][-1] == "trim_parse_tree":
                continue
            elif k[0] == "disc-call" and "std::iter::Iterator::next" in k[1].names():
                continue        # behind the loop that pushes the symbols
            else:
                bad.append(a)
        return bad
    for m, fn, body in (("open_non_terminal", ll.PUSH_PRODUCTION, pp), ("close_non_terminal", ll.PROCESS_ITEM_STACK, ps)):
        ss = sites.get((m, fn), [])
        if len(ss) != 1 or ss[0][0] is not body:
            ctx.bad("R02.7", "%s|%s|one-site" % (short(fn), m), "expected exactly one %s call in %s itself, found %d: the number of "
                    "opened and closed nodes per production can differ" % (m, short(fn), len(ss)), where(body))
            continue
        b, c = ss[0]
        extra = only_trim(b, c)
        reach_ret = [r for r in b.return_blocks() if r in cfg.reachable_from(b, 0, avoid_blocks=[c.bb])]
        # paths that avoid the call: only the trim edge and error exits may do that
        ctx.check(not extra, "R02.7", "%s|%s|unconditional-but-trim" % (short(fn), m),
                  "%s is executed on every non-trimming, non-failing path" % m,
                  "%s in %s is executed only under further conditions (branch blocks %s): some productions get no node, or the "
                  "node is opened later than the prediction" % (m, short(fn), extra), where(b, c.line))
    # the opened node is named by the production the marker stands for
    ss = sites.get(("open_non_terminal", ll.PUSH_PRODUCTION), [])
    if len(ss) == 1:
        b, c = ss[0]
        rp = raw_operand_place(b, c.args[1]) if len(c.args) > 1 else None
        ok = False
        if rp:
            names = [e[2] for e in rp[1:] if isinstance(e, list) and e[0] == "f"]
            idx = [e for e in rp[1:] if isinstance(e, list) and e[0] == "i"]
            if "non_terminal_names" in names and idx:
                ir = raw_place(b, [idx[0][1]])
                inames = [e[2] for e in ir[1:] if isinstance(e, list) and e[0] == "f"]
                ok = "lhs" in inames and "productions" in inames and prod_index_local(b, ir) == 3
        ctx.check(ok, "R02.7", "push_production|node-named-by-marker-production",
                  "the node is named non_terminal_names[productions[prod_num].lhs] with the prod_num of the E marker",
                  "the node push_production opens is not named by the left-hand side of the production whose marker it pushes",
                  where(b, c.line))
    # root: opened before the loop, closed behind it
    acc, loop = ll.main_loop(pi, cfg)
    for m, want_before in (("open_non_terminal", True), ("close_non_terminal", False)):
        for b, c in sites.get((m, ll.PARSE_INTO), []):
            if b is not pi:
                ctx.bad("R02.7", "parse_into|%s|in-closure" % m, "%s of the root node is called from a closure" % m, where(b, c.line))
                continue
            inloop = c.bb in loop[1]
            dom = cfg.Dom(pi)
            ok = not inloop and (dom.dominates(c.bb, loop[0]) if want_before else dom.dominates(loop[0], c.bb))
            ctx.check(ok, "R02.7", "parse_into|%s|root-%s-loop" % (m, "before" if want_before else "behind"),
                      "the root node is %s the parse loop" % ("opened before" if want_before else "closed behind"),
                      "parse_into calls %s inside the parse loop or on the wrong side of it: only the root node is handled by "
                      "parse_into itself" % m, where(pi, c.line))
    ctx.require_floor("R02.7", "tree_construct_sites", sum(len(v) for v in sites.values()), 6)
