"""C32 The packed k-tuple representation behaves like a sequence - thin: the layout constants cohere.

R32.1 const_relations in parol::analysis::k_tuple (all values are read from the MIR / evaluated constants):
      * MAX_BITS == 128 / MAX_K and MAX_K*MAX_BITS + 8 <= 128 (payload + two 4-bit header fields fit),
      * next_index / set_next_index / inc_index use one 4-bit field: getter mask M at shift S, setters clear with ~M and
        shift by the same S; bits / set_bits likewise; the two header fields are disjoint from each other and from
        the payload region [0, MAX_K*MAX_BITS),
      * Terminals::new computes the bit width from max_terminal_index + 1 (room for epsilon) and compares it with
        MAX_BITS before any use,
      * EPS == TerminalIndex::MAX, INVALID == MAX-1, and the built-in token constants re-declared in k_tuple equal
        the runtime's constants of the same name; INVALID equals the runtime's INVALID_TOKEN.
R32.2 get/set agreement: both address bit offset i * bits() with the element mask mask() (see get_set_agree).
R32.3 k_concat: the mask count equals the length increment, the placement offset equals the old length.
R32.4 k_concat: the result is always `self` (possibly cleared / extended): the payload of `other` reaches the result only through
      the masked, shifted value - never by returning `other` itself, which may be longer than k.
R32.5 push: the slot write set(next_index, ..) / inc_index happens only where next_index < MAX_K is established by a dominating
      comparison (slot MAX_K lies in the gap below / inside the header nibbles).
Other shifting arithmetic (of, values x positions) is NOT decided.
"""
from ..dataflow import operand_term, raw_operand_place
from ..facts import AnchorMissing
from .common import PA, where, short, classify_switch, transitive_control_deps, control_dependence_no_errors

CRATES = ["parol.lib", "parol_runtime.lib"]

META = {
    "explanation": "Decides coherence of the bit-layout constants of the packed terminal string (header fields vs payload, "
                   "getter/setter masks and shifts, width check before use, sentinel values) from the constants that "
                   "actually occur in the MIR. The sequence semantics of the shifting code is not decided.",
}

T = "parol::analysis::k_tuple::Terminals::"
U128 = (1 << 128) - 1


def ival(o):
    if o and o[0] == "k" and o[2] is not None:
        try:
            return int(o[2])
        except (TypeError, ValueError):
            return None
    return None


def masks_and_shifts(body):
    ands, shifts = [], []
    for bi, si, p, rv, line, mac in body.assigns():
        if rv[0] == "bin" and rv[1] == "BitAnd":
            for o in (rv[2], rv[3]):
                v = ival(o)
                if v is not None and o[1] == "u128":
                    ands.append(v)
                elif o[0] in ("c", "m"):
                    # `x & !MASK` with a named constant: the complement is computed at run time
                    t = operand_term(body, o)
                    if t[0] == "un" and t[1] == "Not" and t[2][0] == "const" and t[2][1] == "u128":
                        try:
                            ands.append(U128 & ~int(t[2][2]))
                        except (TypeError, ValueError):
                            pass
        if rv[0] == "bin" and rv[1] in ("Shl", "Shr"):
            v = ival(rv[3])
            if v is not None:
                shifts.append((rv[1], v))
    return ands, shifts


def check(ctx):
    facts = ctx.facts()
    max_k = facts.const("parol::MAX_K")
    max_bits = facts.const("parol::analysis::k_tuple::MAX_BITS")
    ctx.check(max_bits == 128 // max_k and max_k * max_bits + 8 <= 128, "R32.1", "MAX_BITS-fits",
              "MAX_BITS=%d == 128/MAX_K(%d) and %d payload bits + 8 header bits <= 128" % (max_bits, max_k, max_k * max_bits),
              "MAX_K=%d, MAX_BITS=%d: payload and header do not fit into 128 bits" % (max_k, max_bits),
              "crates/parol/src/analysis/k_tuple.rs", nontrivial=False)
    payload = (1 << (max_k * max_bits)) - 1

    fields = {}
    for name, getter, setters in (("next_index", "next_index", ["set_next_index", "inc_index"]),
                                  ("bits", "bits", ["set_bits"])):
        g = facts.body(T + getter)
        ands, shifts = masks_and_shifts(g)
        if len(ands) != 1 or len([s for s in shifts if s[0] == "Shr"]) != 1:
            raise AnchorMissing("%s: expected one mask and one right shift (found %s / %s)" % (getter, ands, shifts))
        M = ands[0]
        S = [s[1] for s in shifts if s[0] == "Shr"][0]
        width_ok = M == (0xF << S)
        ctx.check(width_ok, "R32.1", "%s|getter-mask-matches-shift" % name,
                  "getter mask 0x%x is the 4-bit field at bit %d" % (M, S),
                  "getter mask 0x%x is not a 4-bit field at its shift %d" % (M, S), where(g))
        fields[name] = (M, S)
        for sname in setters:
            sb = facts.body(T + sname)
            a2, s2 = masks_and_shifts(sb)
            shl = [s[1] for s in s2 if s[0] == "Shl"]
            ok = len(a2) >= 1 and all(x == (U128 & ~M) for x in a2) and shl and all(x == S for x in shl)
            ctx.check(ok, "R32.1", "%s|setter-%s-agrees" % (name, sname),
                      "%s clears with ~mask and shifts by %d like the getter" % (sname, S),
                      "%s uses clear masks %s / shifts %s but the getter reads mask 0x%x at shift %d: the header field "
                      "written is not the one read" % (sname, [hex(x) for x in a2], shl, M, S), where(sb))
    (m1, s1), (m2, s2) = fields["next_index"], fields["bits"]
    ctx.check(m1 & m2 == 0 and (m1 | m2) & payload == 0, "R32.1", "header-fields-disjoint",
              "the two header fields are disjoint from each other and from the %d payload bits" % (max_k * max_bits),
              "header fields overlap each other or the payload region (masks 0x%x, 0x%x, payload bits %d)"
              % (m1, m2, max_k * max_bits), "crates/parol/src/analysis/k_tuple.rs")

    # Terminals::new: width from max_terminal_index + 1, compared with MAX_BITS before set_bits
    nw = facts.body(T + "new")
    plus1 = False
    for bi, si, p, rv, line, mac in nw.assigns():
        if rv[0] == "bin" and rv[1] in ("Add", "AddWithOverflow"):
            a = operand_term(nw, rv[2])
            if a[0] == "path" and a[1] == 1 and ival(rv[3]) == 1:
                plus1 = True
    sb = nw.calls_to(T + "set_bits")
    gate = False
    if sb:
        cd = control_dependence_no_errors(nw)
        for a, s, k in transitive_control_deps(nw, sb[0].bb, cd=cd):
            if k and k[0] == "bin" and k[1] in ("Gt", "Le", "Lt", "Ge"):
                names = [x[3] for x in (k[2], k[3]) if x[0] == "const"]
                if any((n or "").endswith("MAX_BITS") for n in names):
                    gate = True
    ctx.check(plus1 and gate, "R32.1", "Terminals::new|width-check",
              "bit width is computed from max_terminal_index + 1 and compared with MAX_BITS before it is stored",
              "Terminals::new does not (compute the width from max_terminal_index+1 and) check it against MAX_BITS before use "
              "(plus1=%s, gate=%s): terminal values would silently overflow into the neighbouring element" % (plus1, gate),
              where(nw))

    eps = facts.const("parol::analysis::compiled_terminal::EPS")
    inv = facts.const("parol::analysis::compiled_terminal::INVALID")
    ctx.check(eps == 0xFFFF and inv == 0xFFFE and inv == facts.const("parol_runtime::lexer::token::INVALID_TOKEN"),
              "R32.1", "sentinels", "EPS == u16::MAX, INVALID == MAX-1 == runtime INVALID_TOKEN",
              "EPS/INVALID sentinels changed (EPS=%s INVALID=%s)" % (eps, inv), nontrivial=False)
    for n in ("EOI", "NEW_LINE", "WHITESPACE", "LINE_COMMENT", "BLOCK_COMMENT"):
        a = facts.const("parol::analysis::k_tuple::" + n)
        b = facts.const("parol_runtime::lexer::token::" + n)
        ctx.check(a == b, "R32.1", "builtin-constant|" + n, "k_tuple::%s == runtime %s (%s)" % (n, n, a),
                  "k_tuple::%s (%s) differs from the runtime constant (%s)" % (n, a, b), nontrivial=False)
    # the sentinel values must not be representable as ordinary terminals: EPS & mask for the widest layout != a valid index
    ctx.check((eps & ((1 << max_bits) - 1)) == (1 << max_bits) - 1, "R32.1", "eps-is-all-ones-in-every-width",
              "EPS truncated to any width is the all-ones pattern (the reason new() reserves max_terminal_index + 1)",
              "EPS truncated to the element width is not all ones", nontrivial=False)
    get_set_agree(ctx, facts)
    k_concat_agreement(ctx, facts)
    k_concat_returns_self(ctx, facts)
    push_capacity_guard(ctx, facts)


# ------------------------------------------------------------------------------------------------------------------ R32.2
def _norm(body, t, depth=10):
    """value term normalised over named locals: ('param', name) | ('call', callee, [args]) | (op, a, b) | ('const', v) | ..."""
    from ..dataflow import single_def
    from .c31 import _sh, _sh_place
    if depth <= 0:
        return ("deep",)
    k = t[0]
    if k == "const":
        return ("const", t[1])
    if k == "call":
        c = t[1]
        return ("call", (c.path or "?").split("::")[-1], tuple(_norm(body, _sh(body, a), depth - 1) for a in c.args))
    if k == "bin":
        return (t[1].replace("WithOverflow", "").replace("Unchecked", ""), _norm(body, t[2], depth - 1), _norm(body, t[3], depth - 1))
    if k == "var":
        l = t[2]
        if 1 <= l <= body.nargs:
            return ("param", t[1])
        d = single_def(body, l)
        if d is None:
            return ("var", t[1])
        if d[0] == "call":
            c = d[3]
            return ("call", (c.path or "?").split("::")[-1], tuple(_norm(body, _sh(body, a), depth - 1) for a in c.args))
        rv = d[3]
        if rv[0] == "use":
            return _norm(body, _sh_unnamed(body, rv[1]), depth - 1)
        if rv[0] == "cast":
            return _norm(body, _sh_unnamed(body, rv[2]), depth - 1)
        if rv[0] == "bin":
            return (rv[1].replace("WithOverflow", "").replace("Unchecked", ""), _norm(body, _sh(body, rv[2]), depth - 1),
                    _norm(body, _sh(body, rv[3]), depth - 1))
        if rv[0] == "un":
            return (rv[1], _norm(body, _sh(body, rv[2]), depth - 1))
        return ("var", t[1])
    return (k,)


def _sh_unnamed(body, op):
    from .c31 import _sh
    return _sh(body, op)


def get_set_agree(ctx, facts):
    """R32.2 Terminals::get and Terminals::set address the same bits: get reads (self.t >> i*bits()) & mask(); set writes
    (t & mask()) << i*bits() after clearing !(mask() << i*bits()); the three shift amounts and the masks are the same terms
    (position parameter times bits(), mask()) - a getter and a setter that disagree on position or width make the packed
    value stop behaving like a sequence."""
    from .c31 import _sh
    T = "parol::analysis::k_tuple::Terminals::"
    g, s = facts.body(T + "get"), facts.body(T + "set")
    shifts = {"get": [], "set": []}
    masks = {"get": [], "set": []}
    for name, b in (("get", g), ("set", s)):
        for bi, si, p, rv, line, mac in b.assigns():
            if rv[0] == "bin" and rv[1].replace("Unchecked", "") in ("Shr", "Shl"):
                shifts[name].append((rv[1], _norm(b, _sh(b, rv[3])), _norm(b, _sh(b, rv[2])), line))
            if rv[0] == "bin" and rv[1] == "BitAnd":
                for o in (rv[2], rv[3]):
                    n = _norm(b, _sh(b, o))
                    if n[0] == "call" and n[1] == "mask":
                        masks[name].append((n, line))
    want = ("Mul", ("param", "i"), ("call", "bits", (("param", "self"),)))
    def okshift(x):
        return x == want or (x[0] == "Mul" and {x[1], x[2]} == {want[1], want[2]})
    gs = [x for x in shifts["get"]]
    ss = [x for x in shifts["set"]]
    ctx.check(len(gs) == 1 and gs[0][0].startswith("Shr") and okshift(gs[0][1]), "R32.2", "get|shift-is-i-times-bits",
              "get shifts right by i * bits()", "get does not read at bit offset i * bits(): %s" % (gs,), where(g))
    ctx.check(len(ss) == 2 and all(x[0].startswith("Shl") and okshift(x[1]) for x in ss), "R32.2", "set|shifts-are-i-times-bits",
              "set shifts value and clearing mask left by i * bits()",
              "set does not write / clear at bit offset i * bits(): %s" % (ss,), where(s))
    shifted = sorted(str(x[2]) for x in ss)
    ctx.check(bool(masks["get"]) and bool(masks["set"]) and
              any(x[2] == ("call", "mask", (("param", "self"),)) for x in ss), "R32.2", "get-set|same-mask",
              "get masks with mask(); set masks the value with mask() and clears mask() << i*bits()",
              "getter and setter do not use the same element mask (get: %s, set: %s / shifted %s)"
              % (masks["get"], masks["set"], shifted), where(s))


def k_concat_agreement(ctx, facts):
    """R32.3 (added after seed C32-b) k_concat keeps exactly the terminals it counts: the mask applied to the appended value keeps
    X elements (`!(!0 << X * bits)`), the value is placed behind P elements (`<< P * bits`), and the new length is P + X with the
    same X and P.  A mask that is wider than the count leaves terminals above the recorded length in the 128-bit word; get/iter do
    not see them but the derived Eq/Hash of the packed value do - equal sequences compare unequal."""
    from .c31 import _sh
    T = "parol::analysis::k_tuple::Terminals::"
    b = facts.body(T + "k_concat")
    mask_counts, place_counts = [], []
    for bi, si, p, rv, line, mac in b.assigns():
        if rv[0] == "bin" and rv[1].replace("Unchecked", "") == "Shl":
            left = _sh(b, rv[2])
            amt = _sh(b, rv[3])
            # amount = count * bits
            cnt = None
            if amt[0] == "bin" and amt[1].startswith("Mul"):
                for x in (amt[2], amt[3]):
                    if x[0] == "var" and b.local_ty(x[2]) == "usize":
                        cnt = x
            is_all_ones = left[0] == "const" or (left[0] == "un") or (left[0] == "bin" and False)
            if left[0] == "const" or (left[0] == "unknown"):
                mask_counts.append((cnt, line))
            else:
                place_counts.append((cnt, line))
    idx = [c for c in b.calls() if (c.path or "").endswith("Terminals::set_next_index")]
    new_len = None
    if len(idx) == 1:
        t = _sh(b, idx[0].args[1])
        if t[0] == "var":
            from ..dataflow import single_def
            dd = single_def(b, t[2])
            if dd and dd[0] == "assign" and dd[3][0] in ("cast", "use"):
                t = _sh(b, dd[3][2] if dd[3][0] == "cast" else dd[3][1])
        if t[0] == "bin" and t[1].startswith("Add") and t[2][0] == "var" and t[3][0] == "var":
            new_len = (t[2][2], t[3][2])
    ok = len(mask_counts) == 1 and len(place_counts) == 1 and new_len is not None and mask_counts[0][0] is not None \
        and place_counts[0][0] is not None
    if ok:
        X, P = mask_counts[0][0][2], place_counts[0][0][2]
        ok = {X, P} == set(new_len) and X != P
    ctx.check(ok, "R32.3", "k_concat|mask-count-equals-length-increment",
              "the mask keeps `%s` elements, they are placed behind `%s` elements, the new length is their sum"
              % (b.local_name(mask_counts[0][0][2]) if ok else "?", b.local_name(place_counts[0][0][2]) if ok else "?"),
              "k_concat masks the appended value with a count (%s) that is not the count it adds to the length (%s): terminals beyond the "
              "recorded length stay in the packed word, equal sequences compare / hash differently"
              % ([b.local_name(c[2]) if c else None for c, _l in mask_counts], [b.local_name(x) for x in new_len] if new_len else None),
              where(b, mask_counts[0][1] if mask_counts else None))



def k_concat_returns_self(ctx, facts):
    """R32.4 (added after seed C32-c) every value k_concat returns is its (mutated) `self`; `other.t` is read only as the left
    operand of the `&` that cuts it to the number of terminals taken.  `other` may hold more than k terminals (k-tuples of a
    larger k are concatenated to shorter ones while the look-ahead depth grows): returning it unclipped yields a tuple that is
    longer than k, which then differs from the clipped tuple of the same prefix in sets and tries."""
    from ..dataflow import raw_place
    b = facts.body(T + "k_concat")
    n = 0
    for bi, si, p, rv, line, mac in b.assigns():
        if p != [0]:
            continue
        n += 1
        src = None
        if rv[0] == "use" and rv[1][0] in ("c", "m"):
            src = raw_place(b, rv[1][1])
        ok = bool(src) and src[0] == 1 and len(src) == 1
        ctx.check(ok, "R32.4", "k_concat|returns-self|%d" % n, "the return value is self",
                  "k_concat returns something that is not its (clipped) self - %s: `other` is not cut to k terminals on this path"
                  % ("other" if src and src[0] == 2 else "a new value"), where(b, line))
    for c in b.calls():
        if c.dest == [0]:
            n += 1
            ctx.bad("R32.4", "k_concat|returns-call-result", "k_concat returns the result of %s instead of its clipped self"
                    % short(c.path or "?"), where(b, c.line))
    ctx.require_floor("R32.4", "k_concat_returns", n, 1)
    # reads of other.t: only as operand of BitAnd
    bad = []
    for bi, si, p, rv, line, mac in b.assigns():
        ops = []
        if rv[0] == "use":
            ops = [rv[1]]
        elif rv[0] == "bin":
            if rv[1] == "BitAnd":
                continue
            ops = [rv[2], rv[3]]
        for o in ops:
            if o[0] in ("c", "m"):
                rp = raw_place(b, o[1])
                if rp[0] == 2 and any(isinstance(e, list) and e[0] == "f" and e[2] == "t" for e in rp[1:]):
                    # a copy into a temporary that is then and-ed is fine: follow one step
                    tmp = p[0] if len(p) == 1 else None
                    used_in_and = tmp is not None and any(r2[0] == "bin" and r2[1] == "BitAnd" and
                                                          any(x[0] in ("c", "m") and x[1] == [tmp] for x in (r2[2], r2[3]))
                                                          for _b, _s, _p, r2, _l, _m in b.assigns())
                    if not used_in_and:
                        bad.append(line)
    ctx.check(not bad, "R32.4", "k_concat|other-payload-only-masked", "other.t is read only through the clipping mask",
              "k_concat reads other.t outside the clipping `&` (lines %s)" % bad, where(b))



def push_capacity_guard(ctx, facts):
    """R32.5 (added after seed C32-c) Terminals::push stores at slot next_index() and increments it; the payload has MAX_K slots
    (0..MAX_K-1).  Every path to the store is guarded by a comparison of next_index() with a constant C that implies
    next_index < MAX_K:  `>= C` false or `< C` true with C <= MAX_K, `> C` false or `<= C` true with C + 1 <= MAX_K."""
    from .common import guards_on_all_paths
    b = facts.body(T + "push")
    max_k = facts.const("parol::MAX_K")
    stores = [c for c in b.calls() if c.path in (T + "set", T + "inc_index")]
    if not stores:
        raise AnchorMissing("Terminals::push: no set / inc_index call")
    for c in stores:
        bound = None
        for a, k, truth in guards_on_all_paths(b, c.bb):
            if not k or k[0] != "bin":
                continue
            op, x, y = k[1], k[2], k[3]
            if y[0] == "call" and x[0] == "const":
                x, y = y, x
                op = {"Ge": "Le", "Gt": "Lt", "Le": "Ge", "Lt": "Gt"}.get(op, op)
            if not (x[0] == "call" and x[1].path == T + "next_index" and y[0] == "const" and isinstance(y[2], int)):
                continue
            cval = y[2]
            lim = None
            if (op, truth) in (("Ge", False), ("Lt", True)):
                lim = cval           # next_index < cval
            elif (op, truth) in (("Gt", False), ("Le", True)):
                lim = cval + 1
            if lim is not None:
                bound = lim if bound is None else min(bound, lim)
        ctx.check(bound is not None and bound <= max_k, "R32.5", "push|%s|slot-below-MAX_K" % c.path.split("::")[-1],
                  "the store is reached only with next_index < %s <= MAX_K (%d)" % (bound, max_k),
                  "Terminals::push reaches %s with next_index %s: slot MAX_K (%d) does not belong to the payload - with wide "
                  "terminals it overlaps the length / bit-width nibbles of the header, otherwise the tuple silently grows to "
                  "MAX_K + 1 terminals" % (c.path.split("::")[-1], ("< %d only" % bound) if bound is not None else "unbounded", max_k),
                  where(b, c.line))
