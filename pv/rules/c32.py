"""C32 The packed k-tuple representation behaves like a sequence - thin: the layout constants cohere.

R32.1 const_relations in parol::analysis::k_tuple (all values are read from the MIR / evaluated constants):
      * MAX_BITS == 128 / MAX_K and MAX_K*MAX_BITS + 8 <= 128 (payload + two 4-bit header fields fit),
      * next_index / set_next_index / inc_index use one 4-bit field: getter mask M at shift S, setters clear with ~M and
        shift by the same S; bits / set_bits likewise; the two header fields are disjoint from each other and from
        the payload region [0, MAX_K*MAX_BITS),
      * Terminals::new computes the bit width from max_terminal_index + 1 (room for epsilon) and compares it with
        MAX_BITS before any use,
      * EPS == TerminalIndex::MAX, INVALID == MAX-1, and the built-in token constants re-declared in k_tuple equal
        the runtime's constants of the same name; INVALID equals the runtime's INVALID_TOKEN.
All shifting arithmetic in k_concat/of/get/set (values x positions) is NOT decided.
"""
from ..dataflow import operand_term, raw_operand_place
from ..facts import AnchorMissing
from .common import PA, where, short, classify_switch, transitive_control_deps, control_dependence_no_errors

CRATES = ["parol.lib", "parol_runtime.lib"]

META = {
    "explanation": "Decides coherence of the bit-layout constants of the packed terminal string (header fields vs payload, "
                   "getter/setter masks and shifts, width check before use, sentinel values) from the constants that "
                   "actually occur in the MIR. The sequence semantics of the shifting code is not decided.",
}

T = "parol::analysis::k_tuple::Terminals::"
U128 = (1 << 128) - 1


def ival(o):
    if o and o[0] == "k" and o[2] is not None:
        try:
            return int(o[2])
        except (TypeError, ValueError):
            return None
    return None


def masks_and_shifts(body):
    ands, shifts = [], []
    for bi, si, p, rv, line, mac in body.assigns():
        if rv[0] == "bin" and rv[1] == "BitAnd":
            for o in (rv[2], rv[3]):
                v = ival(o)
                if v is not None and o[1] == "u128":
                    ands.append(v)
                elif o[0] in ("c", "m"):
                    # `x & !MASK` with a named constant: the complement is computed at run time
                    t = operand_term(body, o)
                    if t[0] == "un" and t[1] == "Not" and t[2][0] == "const" and t[2][1] == "u128":
                        try:
                            ands.append(U128 & ~int(t[2][2]))
                        except (TypeError, ValueError):
                            pass
        if rv[0] == "bin" and rv[1] in ("Shl", "Shr"):
            v = ival(rv[3])
            if v is not None:
                shifts.append((rv[1], v))
    return ands, shifts


def check(ctx):
    facts = ctx.facts()
    max_k = facts.const("parol::MAX_K")
    max_bits = facts.const("parol::analysis::k_tuple::MAX_BITS")
    ctx.check(max_bits == 128 // max_k and max_k * max_bits + 8 <= 128, "R32.1", "MAX_BITS-fits",
              "MAX_BITS=%d == 128/MAX_K(%d) and %d payload bits + 8 header bits <= 128" % (max_bits, max_k, max_k * max_bits),
              "MAX_K=%d, MAX_BITS=%d: payload and header do not fit into 128 bits" % (max_k, max_bits),
              "crates/parol/src/analysis/k_tuple.rs", nontrivial=False)
    payload = (1 << (max_k * max_bits)) - 1

    fields = {}
    for name, getter, setters in (("next_index", "next_index", ["set_next_index", "inc_index"]),
                                  ("bits", "bits", ["set_bits"])):
        g = facts.body(T + getter)
        ands, shifts = masks_and_shifts(g)
        if len(ands) != 1 or len([s for s in shifts if s[0] == "Shr"]) != 1:
            raise AnchorMissing("%s: expected one mask and one right shift (found %s / %s)" % (getter, ands, shifts))
        M = ands[0]
        S = [s[1] for s in shifts if s[0] == "Shr"][0]
        width_ok = M == (0xF << S)
        ctx.check(width_ok, "R32.1", "%s|getter-mask-matches-shift" % name,
                  "getter mask 0x%x is the 4-bit field at bit %d" % (M, S),
                  "getter mask 0x%x is not a 4-bit field at its shift %d" % (M, S), where(g))
        fields[name] = (M, S)
        for sname in setters:
            sb = facts.body(T + sname)
            a2, s2 = masks_and_shifts(sb)
            shl = [s[1] for s in s2 if s[0] == "Shl"]
            ok = len(a2) >= 1 and all(x == (U128 & ~M) for x in a2) and shl and all(x == S for x in shl)
            ctx.check(ok, "R32.1", "%s|setter-%s-agrees" % (name, sname),
                      "%s clears with ~mask and shifts by %d like the getter" % (sname, S),
                      "%s uses clear masks %s / shifts %s but the getter reads mask 0x%x at shift %d: the header field "
                      "written is not the one read" % (sname, [hex(x) for x in a2], shl, M, S), where(sb))
    (m1, s1), (m2, s2) = fields["next_index"], fields["bits"]
    ctx.check(m1 & m2 == 0 and (m1 | m2) & payload == 0, "R32.1", "header-fields-disjoint",
              "the two header fields are disjoint from each other and from the %d payload bits" % (max_k * max_bits),
              "header fields overlap each other or the payload region (masks 0x%x, 0x%x, payload bits %d)"
              % (m1, m2, max_k * max_bits), "crates/parol/src/analysis/k_tuple.rs")

    # Terminals::new: width from max_terminal_index + 1, compared with MAX_BITS before set_bits
    nw = facts.body(T + "new")
    plus1 = False
    for bi, si, p, rv, line, mac in nw.assigns():
        if rv[0] == "bin" and rv[1] in ("Add", "AddWithOverflow"):
            a = operand_term(nw, rv[2])
            if a[0] == "path" and a[1] == 1 and ival(rv[3]) == 1:
                plus1 = True
    sb = nw.calls_to(T + "set_bits")
    gate = False
    if sb:
        cd = control_dependence_no_errors(nw)
        for a, s, k in transitive_control_deps(nw, sb[0].bb, cd=cd):
            if k and k[0] == "bin" and k[1] in ("Gt", "Le", "Lt", "Ge"):
                names = [x[3] for x in (k[2], k[3]) if x[0] == "const"]
                if any((n or "").endswith("MAX_BITS") for n in names):
                    gate = True
    ctx.check(plus1 and gate, "R32.1", "Terminals::new|width-check",
              "bit width is computed from max_terminal_index + 1 and compared with MAX_BITS before it is stored",
              "Terminals::new does not (compute the width from max_terminal_index+1 and) check it against MAX_BITS before use "
              "(plus1=%s, gate=%s): terminal values would silently overflow into the neighbouring element" % (plus1, gate),
              where(nw))

    eps = facts.const("parol::analysis::compiled_terminal::EPS")
    inv = facts.const("parol::analysis::compiled_terminal::INVALID")
    ctx.check(eps == 0xFFFF and inv == 0xFFFE and inv == facts.const("parol_runtime::lexer::token::INVALID_TOKEN"),
              "R32.1", "sentinels", "EPS == u16::MAX, INVALID == MAX-1 == runtime INVALID_TOKEN",
              "EPS/INVALID sentinels changed (EPS=%s INVALID=%s)" % (eps, inv), nontrivial=False)
    for n in ("EOI", "NEW_LINE", "WHITESPACE", "LINE_COMMENT", "BLOCK_COMMENT"):
        a = facts.const("parol::analysis::k_tuple::" + n)
        b = facts.const("parol_runtime::lexer::token::" + n)
        ctx.check(a == b, "R32.1", "builtin-constant|" + n, "k_tuple::%s == runtime %s (%s)" % (n, n, a),
                  "k_tuple::%s (%s) differs from the runtime constant (%s)" % (n, a, b), nontrivial=False)
    # the sentinel values must not be representable as ordinary terminals: EPS & mask for the widest layout != a valid index
    ctx.check((eps & ((1 << max_bits) - 1)) == (1 << max_bits) - 1, "R32.1", "eps-is-all-ones-in-every-width",
              "EPS truncated to any width is the all-ones pattern (the reason new() reserves max_terminal_index + 1)",
              "EPS truncated to the element width is not all ones", nontrivial=False)
