"""C06 FIRST_k and FOLLOW_k sets match their definitions - thin: only the order-independence clause (cache coherence).

Equality of the computed sets with their definitions is a value property of two fixpoint solvers and is NOT decided (see
DESIGN section 5).  The last sentence of the property - "this holds regardless of the order in which the sets for different k
are requested" - has a structural necessary condition: the per-k caches are coherent.
R06.1 FirstCache::get / FollowCache::get: the slot that is tested for "already computed", the k handed to first_k / follow_k,
      the slot the result is stored into and the slot that is returned are all indexed by the parameter k itself (a value
      computed for k can only be found under k, whatever was requested before).
R06.2 who may write the cache slots: only the two get functions (and Default) store into FirstCache.0 / FollowCache.0; the
      solvers read other slots only through get (so a missing lower-k entry is computed on demand instead of being read as
      empty).
R06.4 the cache arrays have MAX_K + 1 slots (k ranges over 0 ..= MAX_K).
R06.5 decidable validates its lookahead limit against MAX_K before the first cache access.
R06.6 symbol sequences are never cut by count in the equation compilers (hazard rule, expected count 0).
R06.7 KTuples::k_concat replaces the incomplete tuples of self by their concatenations with other under one condition only: self
      is not k-complete.  In particular X . {} keeps only the complete tuples of X (the solvers start from empty sets; keeping
      the incomplete tuples while a neighbour is still empty puts strings into FIRST/FOLLOW that no derivation produces, and
      the sets only grow).
R06.3 the fixpoint loops of first_k / follow_k are left only on an equality test of the complete old and new state.
"""
from ..dataflow import raw_operand_place, raw_place, single_def
from ..facts import AnchorMissing
from .common import PA, where, short, all_places

CRATES = ["parol.lib"]
META = {
    "explanation": "Decides only the cache-coherence condition behind C06's order-independence clause: each per-k cache slot is "
                   "tested, filled and returned under the requested k, and nothing else writes or directly reads the slots. "
                   "The sets themselves (two fixpoint computations) are NOT decided by this family.",
}
KD = "parol::analysis::k_decision::"
CACHES = {KD + "FirstCache": ("parol::analysis::first::first_k", 1),
          KD + "FollowCache": ("parol::analysis::follow::follow_k", 1)}


def _index_locals(body, adt):
    """[(kind r/w, index local, line)] for every place  (*self).0[idx]  of the cache type"""
    out = []
    for bi, kind, p, line in all_places(body):
        for i, e in enumerate(p[1:]):
            if isinstance(e, list) and e[0] == "f" and e[3] == adt and e[1] == 0:
                nxt = p[i + 2] if i + 2 < len(p) else None
                if isinstance(nxt, list) and nxt[0] == "i":
                    out.append((kind, nxt[1], line))
                elif isinstance(nxt, list) and nxt[0] in ("c", "s"):
                    out.append((kind, ("const", nxt), line))
                else:
                    out.append((kind, None, line))
    return out


def _is_param_k(body, local, kparam):
    if local == kparam:
        return True
    if isinstance(local, int):
        rp = raw_place(body, [local])
        return rp == [kparam]
    return False


def check(ctx):
    facts = ctx.facts()
    for adt, (solver, karg) in sorted(CACHES.items()):
        get = facts.body(adt + "::get")
        ks = [i for i in range(1, get.nargs + 1) if get.local_ty(i) == "usize"]
        if len(ks) != 1:
            raise AnchorMissing("%s::get: expected exactly one usize parameter (the requested k)" % short(adt))
        K = ks[0]
        idx = []
        for b in facts.family(get):
            idx += [(b, k, l, line) for k, l, line in _index_locals(b, adt)]
        bad = [(b, line) for b, k, l, line in idx if not (b is get and _is_param_k(b, l, K))]
        ctx.check(len(idx) >= 3 and not bad, "R06.1", "%s::get|slots-indexed-by-k" % short(adt).split("::")[-1],
                  "all %d accesses of the cache array in get use the parameter k as index (test, store, return)" % len(idx),
                  "%s::get accesses a cache slot with an index that is not the requested k (lines %s): a set computed for one k "
                  "is stored or found under another, results depend on the order of requests"
                  % (short(adt), [l for _b, l in bad]), where(get, bad[0][1] if bad else None))
        calls = [c for c in get.calls() if c.path == solver]
        okc = len(calls) == 1
        if okc:
            rp = raw_operand_place(get, calls[0].args[karg])
            okc = rp == [K]
        ctx.check(okc, "R06.1", "%s::get|solver-called-with-k" % short(adt).split("::")[-1],
                  "%s is called with the requested k" % short(solver),
                  "%s::get does not call %s exactly once with the requested k" % (short(adt), short(solver)),
                  where(get, calls[0].line if calls else None))
        rec = [c for c in get.calls() if c.path == adt + "::get"]
        okr = all(raw_operand_place(get, c.args[1]) == [K] for c in rec)
        ctx.check(okr, "R06.1", "%s::get|returns-slot-k" % short(adt).split("::")[-1],
                  "the freshly filled entry is fetched under the same k",
                  "after filling the cache %s::get fetches a different k" % short(adt), where(get), nontrivial=False)
        # R06.2 writers and direct readers of the slots outside get
        outside = []
        for b in facts.in_crate(PA):
            root = b.root_fn(facts).path
            if root == adt + "::get" or "Default" in root or root.endswith("::new"):
                continue
            for kind, l, line in _index_locals(b, adt):
                if l is None and kind != "w":
                    continue        # the array as a whole (derived Debug / Default), no slot is selected
                outside.append((b, kind, line))
        ctx.check(not outside, "R06.2", "%s|slots-private-to-get" % short(adt).split("::")[-1],
                  "no function other than get touches the cache array directly",
                  "%s accesses the cache array directly (%s): a slot that was not requested yet is read as empty or a foreign "
                  "value is stored" % (sorted({short(b.path) for b, _k, _l in outside}),
                                         sorted({"write" if k == "w" else "read" for _b, k, _l in outside})),
                  where(outside[0][0], outside[0][2]) if outside else "crates/parol/src/analysis/k_decision.rs")
    ctx.require_floor("R06.1", "caches", len(CACHES), 2)
    whole_state_convergence(ctx, facts)
    cache_capacity(ctx, facts)
    limit_validated(ctx, facts)
    no_symbol_sequence_truncation(ctx, facts)
    concat_depends_on_self_only(ctx, facts)


# ------------------------------------------------------------------------------------------------------------------ R06.3
SOLVERS = ("parol::analysis::first::first_k", "parol::analysis::follow::follow_k")
PARTIAL = {"index", "index_mut", "get", "get_mut", "split_at", "split_first", "split_last", "skip", "take", "first", "last",
           "step_by", "filter", "range", "get_unchecked", "chunks", "windows", "iter_mut"}


def whole_state_convergence(ctx, facts):
    """R06.3 (added after seed C06-a) the fixpoint loops of first_k / follow_k stop only when the *whole* state is unchanged: every
    exit of the iteration loop is guarded by an equality test whose two operands are the complete old and new state values (reached
    through deref / borrow / clone only).  A test on a part of the state (a sub-slice, one half of the result vector) can hold one
    iteration before the rest has stopped changing; the loop then returns a state that is not a fixpoint - stale per-production
    sets, a FIRST/FIRST conflict is missed."""
    from .. import cfg
    from ..dataflow import operand_term
    from .common import classify_switch
    n = 0
    for path in SOLVERS:
        b = facts.body(path)
        loops = cfg.natural_loops(b)
        for header, blocks, backs in loops:
            # equality tests inside the loop that guard an exit edge
            for d in sorted(blocks):
                k = classify_switch(b, d)
                if not k or k[0] != "call" or (k[1].path or "").split("::")[-1] not in ("eq", "ne"):
                    continue
                st = k[1].self_ty or ""
                if not ("Vec<" in st or "Rc<" in st or st.startswith("[") or "Map<" in st or "HashMap" in st or "BTreeMap" in st):
                    continue
                leaves = [t for _v, t in b.switch_edges(d) if t not in blocks] or \
                    [t for _v, t in b.switch_edges(d) if any(x not in blocks for x in cfg.reachable_from(b, t, avoid_blocks=[header]))]
                if not leaves:
                    continue
                n += 1
                partial = []
                for o in k[1].args:
                    t = operand_term(b, o)
                    hops = 0
                    while t[0] in ("call", "proj") and hops < 10:
                        hops += 1
                        if t[0] == "proj":
                            t = t[1]
                            continue
                        nm = (t[1].path or "").split("::")[-1]
                        if nm in PARTIAL:
                            partial.append("%s at line %d" % (nm, t[1].line))
                            break
                        if nm in ("deref", "borrow", "as_ref", "clone", "as_slice", "deref_mut", "as_ptr", "new"):
                            t = operand_term(b, t[1].args[0]) if t[1].args else ("unknown",)
                            continue
                        break
                ctx.check(not partial, "R06.3", "%s|convergence-test@%d-compares-whole-state" % (path.split("::")[-1], n),
                          "the loop is left on an equality of the complete old and new state",
                          "%s leaves its fixpoint loop on a comparison of a *part* of the state (%s): the part that is not compared "
                          "may still change in that round, and the state that is returned is the one from before the round"
                          % (path.split("::")[-1], partial), where(b, k[1].line))
    # a solver without any whole-state test: say what it converges on instead
    for path in SOLVERS:
        b = facts.body(path)
        has_whole = False
        summary = []
        for header, blocks, backs in cfg.natural_loops(b):
            for d in sorted(blocks):
                k = classify_switch(b, d)
                if not k:
                    continue
                leaves = [t for _v, t in b.switch_edges(d) if t not in blocks]
                if k[0] == "call" and (k[1].path or "").split("::")[-1] in ("eq", "ne"):
                    st = k[1].self_ty or ""
                    if "Vec<" in st or "Rc<" in st or st.startswith("[") or "Map<" in st or "HashMap" in st or "BTreeMap" in st:
                        has_whole = True
                elif k[0] == "bin" and k[1] in ("Eq", "Ne") and leaves:
                    ops = [k[2], k[3]]
                    if all(o[0] == "call" for o in ops):
                        summary.append((short(ops[0][1].path or "?"), b.line_of_block(d)))
        if not has_whole:
            ctx.bad("R06.3", "%s|no-whole-state-convergence-test" % path.split("::")[-1],
                    "%s has no fixpoint loop that is left on an equality of the complete old and new state%s: equal summaries do not "
                    "imply equal states (the first round at k starts from the final result of k-1), the loop can stop before the "
                    "fixpoint is reached - FOLLOW/FIRST sets are incomplete and a conflict is missed"
                    % (path.split("::")[-1], "; it compares a summary instead (%s)" % summary if summary else ""), where(b))
    ctx.require_floor("R06.3", "convergence_tests", n, 2)


def cache_capacity(ctx, facts, rule="R06.4"):
    """R06.4 / R26.5 (added after seed C26-b) the per-k caches have a slot for every k the analysis can ask for: the lookahead limit
    is bounded by MAX_K (Builder::max_lookahead and the CLI reject larger values) and decidable requests k = 0 ..= max_k, so the
    cache arrays need MAX_K + 1 slots.  One slot less and `-k 10` panics with an index out of bounds instead of reporting
    'maximum lookahead exceeded'."""
    import re
    max_k = facts.const("parol::MAX_K")
    for adt in sorted(CACHES):
        fields = facts.adt(adt)["variants"][0]["fields"]
        ty = fields[0][1] if fields else ""
        m = re.search(r";\s*(\d+)\]\s*$", ty)
        n = int(m.group(1)) if m else None
        ctx.check(n == max_k + 1, rule, "%s|capacity" % short(adt).split("::")[-1],
                  "%s has %s slots = MAX_K (%d) + 1" % (short(adt), n, max_k),
                  "%s has %s slots but k ranges over 0 ..= MAX_K (%d): requesting the set for k = %d indexes past the array (panic)"
                  % (short(adt), n if n is not None else "an unevaluated number of (%s)" % ty[-40:], max_k, max_k), 
                  "crates/parol/src/analysis/k_decision.rs", nontrivial=False)


def limit_validated(ctx, facts, rule="R06.5"):
    """R06.5 / R26.6 the k that indexes the caches is bounded by their capacity: decidable - the function through which the
    pipeline requests the sets for k = 1 ..= max_k - compares its limit with the constant MAX_K and returns an error beyond it
    before the first cache access (every block that calls FirstCache::get / FollowCache::get or builds a closure lies behind
    the within-limit edge of that comparison).  Without it `parol export -k 11` indexes past the cache array (panic)."""
    from .. import cfg
    from .common import guards_on_all_paths
    d = facts.body(KD + "decidable")
    users = [c.bb for c in d.calls() if (c.path or "") in (KD + "FirstCache::get", KD + "FollowCache::get")]
    for bi, si, p, rv, line, mac in d.assigns():
        if rv[0] == "agg" and rv[1] == "closure":
            users.append(bi)
    if not users:
        raise AnchorMissing("decidable: no cache access found")
    bad = []
    for u in sorted(set(users)):
        ok = False
        for a, k, truth in guards_on_all_paths(d, u):
            if not k or k[0] != "bin" or k[1] not in ("Gt", "Ge", "Lt", "Le"):
                continue
            t = d.term(a)
            dd = [x for x in d.defs(t[1][1][0]) if x[0] == "assign"] if t[1][0] in ("c", "m") else []
            if not dd or dd[0][3][0] != "bin":
                continue
            ops = [dd[0][3][2], dd[0][3][3]]
            consts = [o for o in ops if o[0] == "k" and (o[3] or "").endswith("MAX_K")]
            params = [o for o in ops if o[0] in ("c", "m") and 1 <= (raw_operand_place(d, o) or [0])[0] <= d.nargs]
            if not consts or not params:
                continue
            # param <op> MAX_K (or mirrored); the user block must lie on the `param <= MAX_K` side
            left_is_param = ops[0] in params
            op = k[1]
            if not left_is_param:
                op = {"Gt": "Lt", "Lt": "Gt", "Ge": "Le", "Le": "Ge"}[op]
            within = (op in ("Gt",) and not truth) or (op in ("Le",) and truth) or (op == "Ge" and not truth) or (op == "Lt" and truth)
            if within:
                ok = True
        if not ok:
            bad.append(d.line_of_block(u))
    ctx.check(not bad, rule, "decidable|limit-validated-before-cache-access",
              "every cache access of decidable lies behind `max_k <= MAX_K`",
              "decidable reaches the per-k caches (lines %s) without having compared its lookahead limit with MAX_K: a limit above "
              "MAX_K (e.g. `parol export -k 11`) indexes past the cache arrays - a panic instead of an error" % sorted(set(bad)),
              where(d))


def no_symbol_sequence_truncation(ctx, facts, rule="R06.6"):
    """R06.6 (added after seed C06-b; expected count 0) the equation compilers of first_k / follow_k never cut a sequence of grammar
    symbols by *count*: no take / take_while / truncate / split_off / step_by / resize on iterators or vectors of production
    parts, symbol strings or symbols in parol::analysis::first and ::follow.  The k-truncation of FIRST_k / FOLLOW_k applies to
    terminal strings (k_concat on KTuples), not to symbols - a symbol may derive epsilon, so the (k+1)-th symbol can still
    contribute to the first k terminals."""
    CUTS = {"take", "take_while", "truncate", "split_off", "step_by", "resize", "nth_back"}
    SEQ = ("ProductionPart", "FollowPart", "SymbolString", "grammar::symbol::Symbol", "grammar::production::Pr")
    hits = []
    n = 0
    for b in facts.in_crate(PA):
        if not (b.module or "").startswith(("parol::analysis::first", "parol::analysis::follow")):
            continue
        n += 1
        for c in b.calls():
            nm = (c.path or "").split("::")[-1]
            st = (c.self_ty or "") + " " + (c.callee.get("pa") or "")
            if nm in CUTS and any(x in st for x in SEQ):
                hits.append((b, c, nm))
    for b, c, nm in hits:
        ctx.bad(rule, "%s|%s-on-symbol-sequence" % (short(b.path), nm),
                "%s applies %s to a sequence of grammar symbols / production parts: symbols behind the cut are ignored although the "
                "ones before it may all derive epsilon - FIRST_k / FOLLOW_k lose tuples (and FOLLOW gains spurious ones from "
                "the enclosing non-terminal)" % (short(b.path), nm), where(b, c.line))
    ctx.check(not hits, rule, "no-count-truncation-of-symbol-sequences", "no take/truncate.. on symbol sequences in %d bodies" % n,
              "%d truncation(s) of symbol sequences" % len(hits), nontrivial=False)
    ctx.require_floor(rule, "bodies_scanned", n, 10)



def concat_depends_on_self_only(ctx, facts):
    """R06.7 (added after seed C06-c)"""
    from .common import guards_on_all_paths
    b = facts.body("parol::analysis::k_tuples::KTuples::k_concat")
    steps = [c for c in b.calls() if (c.path or "").split("::")[-1] in ("partition", "extend", "update_completeness")]
    if len(steps) < 2:
        raise AnchorMissing("KTuples::k_concat: partition / extend steps not found")
    for c in steps:
        extra = []
        for a, k, truth in guards_on_all_paths(b, c.bb):
            if k and k[0] == "field" and k[1] == 1 and k[2] and k[2][-1] == "k_complete":
                continue
            extra.append((a, k[0] if k else "?"))
        ctx.check(not extra, "R06.7", "KTuples::k_concat|%s|only-guard-is-self.k_complete" % (c.path or "").split("::")[-1],
                  "the step is guarded by self.k_complete only",
                  "KTuples::k_concat performs %s under a further condition (%s): the result of X . Y then depends on something "
                  "other than X's completeness - e.g. X . {} keeps incomplete tuples although nothing can follow them"
                  % ((c.path or "").split("::")[-1], extra), where(b, c.line))
