"""C18 All generated parts agree on terminal identity.

R18.1 key_fields: every search (Iterator::position / find / rposition) over a table of terminals - iterator item
      type mentions TerminalKind and LookaheadExpression - must use the full key that Cfg::get_ordered_terminals uses
      to deduplicate: text (tuple field 0) AND kind through TerminalKind::behaves_like (field 1) AND look-ahead
      (field 2); the comparisons must be conjoined.
R18.2 who-computes: every arithmetic with the constant FIRST_USER_TOKEN in parol adds it to (a) a position result of
      a search checked by R18.1, (b) an enumerate() index / a length, or subtracts it from a terminal index
      (inverse mapping).  Anything else is an unreviewed way of numbering terminals.
      (c) since seed C18-c (R18.6): a count of terminals (FIRST_USER_TOKEN + length) is the length of Cfg::get_ordered_terminals
      itself - the enumeration that numbers the terminals - and the constant is also recognised behind a cast.
R18.3 FIRST_USER_TOKEN of the generator equals the runtime constant and is the successor of BLOCK_COMMENT.
R18.5 no map / set keyed by components of a terminal's identity (hazard rule, expected count 0).
R18.4 token numbers stored in the scanner configurations (skip lists, transitions) are renumbered by every function that
      replaces the grammar after construction (see renumbering_on_grammar_change).
"""
import re

from .. import cfg
from ..dataflow import forward_derived, operand_term, single_def, term_str, raw_operand_place
from ..facts import AnchorMissing
from .common import PA, where, short, fn_key, only_via_edge

CRATES = ["parol.lib", "parol_runtime.lib"]

META = {
    "explanation": "Decides the lookup-key clause of C18: every place in the generator that turns a terminal occurrence "
                   "into a token number searches the ordered terminal list with the complete key (text, kind via "
                   "behaves_like, look-ahead) or takes the enumerate index of that list; no other arithmetic with "
                   "FIRST_USER_TOKEN exists. Not decided: that all consumers are handed the same grammar instance.",
}

FUT = "parol_runtime::lexer::token::FIRST_USER_TOKEN"
BEHAVES = "parol::grammar::symbol::TerminalKind::behaves_like"
SEARCHES = {"std::iter::Iterator::position", "std::iter::Iterator::find", "std::iter::Iterator::rposition",
            "std::iter::Iterator::find_map", "std::iter::Iterator::any"}
EQ = {"std::cmp::PartialEq::eq", "std::cmp::PartialEq::ne"}


def closure_of_arg(facts, body, call, idx=1):
    if idx >= len(call.args):
        return None
    a = call.args[idx]
    if a[0] in ("c", "m") and len(a[1]) == 1:
        d = single_def(body, a[1][0])
        if d and d[0] == "assign" and d[3][0] == "agg" and d[3][1] == "closure":
            return facts.body_by_path_opt(d[3][2])
    return None


def key_fields(cl):
    """tuple fields of the closure's element argument that flow into a comparison, and how"""
    out = {}
    cmp_calls = []
    for c in cl.calls():
        if (c.names() & EQ) or BEHAVES in c.names():
            cmp_calls.append(c)
    for fld in range(4):
        seeds = set()
        for bi, si, p, rv, line, mac in cl.assigns():
            pl = None
            if rv[0] in ("ref", "cfd"):
                pl = rv[-1]
            elif rv[0] == "use" and rv[1][0] in ("c", "m"):
                pl = rv[1][1]
            if pl and pl[0] == 2:
                fs = [e for e in pl[1:] if isinstance(e, list) and e[0] == "f"]
                if fs and fs[0][1] == fld and fs[0][3] == "()":
                    seeds.add(p[0])
        if not seeds:
            continue
        der = forward_derived(cl, seeds, through_calls=lambda c: bool(c.names() & {"std::ops::Deref::deref"}))
        for c in cmp_calls:
            if any(a[0] in ("c", "m") and a[1][0] in der for a in c.args):
                out.setdefault(fld, []).append(c)
    return out, cmp_calls


def conjunction(cl, cmp_calls):
    """every comparison result either *is* the closure result or gates it: blocks that can make the result
    true are reachable only through the true edge of each comparison's switch"""
    true_defs = []
    for bi, si, p, rv, line, mac in cl.assigns():
        if p == [0]:
            if rv[0] == "use" and rv[1][0] == "k" and rv[1][2] is False:
                continue
            true_defs.append(bi)
    for c in cl.calls():
        if c.dest == [0]:
            true_defs.append(c.target if c.target is not None else c.bb)
    for c in cmp_calls:
        if c.dest == [0]:
            continue
        # find switch on this result
        sw = None
        for d in range(len(cl.blocks)):
            t = cl.term(d)
            if t[0] == "switch" and t[1][0] in ("c", "m") and t[1][1] == c.dest:
                sw = d
        if sw is None:
            # result moved into _0 later?
            if any(s[0] == "a" and s[1] == [0] and s[2][0] == "use" and s[2][1][0] in ("c", "m") and s[2][1][1] == c.dest
                   for b in cl.blocks for s in b["s"]):
                continue
            return False
        vals = {v for v, _t in cl.switch_edges(sw) if v != 0}
        for tb in true_defs:
            if tb == c.bb:
                continue
            if not only_via_edge(cl, sw, vals, tb):
                return False
    return True


def check(ctx):
    facts = ctx.facts()
    checked_positions = {}   # (crate|dp of body, bb) -> ok
    n_sites = 0
    for b in facts.in_crate(PA):
        for c in b.calls():
            if not (c.names() & SEARCHES):
                continue
            st = c.self_ty
            if "TerminalKind" not in st or "LookaheadExpression" not in st:
                continue
            # a search over the ordered-terminal tuples
            cl = closure_of_arg(facts, b, c)
            n_sites += 1
            ctx.count("call_sites")
            key = "%s|terminal-lookup-key" % fn_key(b, facts)
            if cl is None:
                ctx.bad("R18.1", key, "search over the terminal table with a predicate that is not a closure literal; "
                        "cannot establish the lookup key", where(b, c.line))
                continue
            fields, cmps = key_fields(cl)
            kinds_ok = 1 in fields and any(BEHAVES in x.names() for x in fields[1])
            missing = [f for f in (0, 1, 2) if f not in fields]
            conj = conjunction(cl, cmps)
            ok = not missing and kinds_ok and conj
            checked_positions[(b.crate + "|" + b.dp, c.bb)] = ok
            what = []
            if missing:
                what.append("ignores tuple field(s) %s of (text, kind, look-ahead)" % missing)
            if 1 in fields and not kinds_ok:
                what.append("compares the kind without TerminalKind::behaves_like")
            if not conj:
                what.append("the comparisons are not conjoined")
            ctx.check(ok, "R18.1", key,
                      "%s over the terminal table compares text, kind (behaves_like) and look-ahead, conjoined"
                      % short(c.path),
                      "terminal lookup %s: terminals with equal text but different quoting style / look-ahead get the "
                      "same token number here while the scanner numbers them separately" % "; ".join(what),
                      where(b, c.line))
    ctx.require_floor("R18.1", "terminal_table_searches", n_sites, 3)

    # ---------------------------------------------------------------- R18.2
    n_arith = 0
    for b in facts.in_crate(PA):
        for bi, si, p, rv, line, mac in b.assigns():
            if rv[0] != "bin":
                continue
            ops = [rv[2], rv[3]]
            # the constant may reach the operation through a cast (`FIRST_USER_TOKEN as usize`)
            ci = [i for i, o in enumerate(ops) if (o[0] == "k" and o[3] == FUT) or
                  (o[0] in ("c", "m") and (lambda t: t[0] == "const" and t[3] == FUT)(operand_term(b, o)))]
            if not ci:
                continue
            n_arith += 1
            other = ops[1 - ci[0]]
            op = rv[1]
            key = "%s|first-user-token-arith|%s" % (fn_key(b, facts), op.replace("WithOverflow", ""))
            cls = classify_index_source(facts, b, other, checked_positions)
            if cls == "length":
                # R18.6 (added after seed C18-c): a terminal *count* is the length of the enumeration that numbers the terminals
                from .c07 import origin_chain
                chain, _leaf = origin_chain(b, other)
                names = [nm for nm, _st, _c in chain]
                if not any(nm in ("get_ordered_terminals", "get_ordered_terminals_owned") for nm in names):
                    cls = "length-of-another-collection(%s)" % "<-".join(names)
            elif cls.startswith("call:") and _returns_ordered_terminal_count(facts, b, other):
                cls = "length"      # a wrapper: its body returns get_ordered_terminals().len()
            elif cls.startswith("call:"):
                cls += " (not the length of Cfg::get_ordered_terminals: a second way of counting terminals must identify them by " \
                       "text, kind and look-ahead exactly like the numbering does; the count sizes the packed k-tuples)"
            if op.startswith("Add"):
                ok = cls in ("position-checked", "enumerate-index", "length")
                ctx.check(ok, "R18.2", key,
                          "FIRST_USER_TOKEN is added to %s" % cls,
                          "FIRST_USER_TOKEN is added to a value of unreviewed origin (%s): a new way of numbering "
                          "terminals that is not the position in Cfg::get_ordered_terminals" % cls, where(b, line))
            elif op.startswith("Sub") or op in ("Ge", "Gt", "Lt", "Le", "Eq", "Ne"):
                ctx.ok("R18.2", key, "inverse mapping / range test on a terminal index (%s)" % op, where(b, line),
                       nontrivial=False)
            else:
                ctx.bad("R18.2", key, "unexpected arithmetic %s with FIRST_USER_TOKEN" % op, where(b, line))
    ctx.require_floor("R18.2", "first_user_token_arith", n_arith, 8)

    # ---------------------------------------------------------------- R18.3
    fut = facts.const("parol_runtime::lexer::token::FIRST_USER_TOKEN")
    bc = facts.const("parol_runtime::lexer::token::BLOCK_COMMENT")
    ctx.check(fut == bc + 1, "R18.3", "FIRST_USER_TOKEN==BLOCK_COMMENT+1",
              "FIRST_USER_TOKEN (%s) directly follows the last built-in token BLOCK_COMMENT (%s)" % (fut, bc),
              "FIRST_USER_TOKEN (%s) is not BLOCK_COMMENT+1 (%s): user terminals collide with or leave a gap after the "
              "built-in tokens" % (fut, bc), "crates/parol_runtime/src/lexer/token.rs", nontrivial=False)
    renumbering_on_grammar_change(ctx, facts)
    no_terminal_keyed_maps(ctx, facts)


def _returns_ordered_terminal_count(facts, b, op):
    """the operand is the result of a call of a function in this crate whose every definition of its return value is
    `<...get_ordered_terminals[_owned]()...>.len()` (one level of inlining, stated bound)"""
    from .c07 import origin_chain
    t = operand_term(b, op)
    if t[0] != "call":
        return False
    callee = None
    for nm in t[1].names():
        callee = callee or facts.body_by_path_opt(nm)
    if callee is None:
        return False
    rets = [c for c in callee.calls() if c.dest == [0]]
    assigns = [1 for _bi, _si, p, _rv, _l, _m in callee.assigns() if p == [0]]
    if assigns or not rets:
        return False
    for c in rets:
        if (c.path or "").split("::")[-1] != "len" or not c.args:
            return False
        chain, _leaf = origin_chain(callee, c.args[0])
        if not any(nm in ("get_ordered_terminals", "get_ordered_terminals_owned") for nm, _s, _c in chain):
            return False
    return True


def _option_from_position(facts, body, term, depth=4):
    """(body, position call) when an Option value is the result of Iterator::position, possibly produced inside the closure of
    an Option::and_then / map chain (`x.and_then(|..| table.iter().position(..)).map_or(d, |i| i + FIRST)`)"""
    if depth <= 0 or term[0] != "call":
        return None
    c = term[1]
    if c.names() & {"std::iter::Iterator::position", "std::iter::Iterator::rposition"}:
        return (body, c)
    if c.path in ("std::option::Option::and_then", "std::option::Option::or_else", "std::option::Option::map"):
        for a in c.args[1:]:
            if a and a[0] in ("c", "m"):
                d = single_def(body, a[1][0])
                if d and d[0] == "assign" and d[3][0] == "agg" and d[3][1] == "closure":
                    cl = facts.body_by_path_opt(d[3][2])
                    if cl is None:
                        continue
                    for cc in cl.calls():
                        if cc.dest == [0] and cc.names() & {"std::iter::Iterator::position", "std::iter::Iterator::rposition"}:
                            return (cl, cc)
        return _option_from_position(facts, body, operand_term(body, c.args[0]), depth - 1) if c.args else None
    return None


def classify_index_source(facts, b, op, checked_positions):
    t = operand_term(b, op, through_calls=False)
    # strip casts are already transparent; look through unwrap/expect
    seen = 0
    while t[0] == "call" and seen < 6:
        c = t[1]
        seen += 1
        names = c.names()
        if names & {"std::iter::Iterator::position", "std::iter::Iterator::rposition"}:
            k = (b.crate + "|" + b.dp, c.bb)
            if k in checked_positions:
                return "position-checked" if checked_positions[k] else "position-with-incomplete-key"
            return "position-over-other-table"
        if c.path and (c.path.endswith("::unwrap") or c.path.endswith("::expect") or c.path.endswith("::unwrap_or")
                       or c.path.endswith("::ok_or_else") or "Try::branch" in c.path):
            t = operand_term(b, c.args[0])
            continue
        if c.path and c.path.endswith("::len"):
            return "length"
        return "call:%s" % short(c.path or "?")
    if t[0] == "path":
        root, elems = t[1], t[2]
        ty = b.local_ty(root)
        # closure parameter: `.map(|i| i + FIRST)` right after a checked position, or `(i, item)` of enumerate
        if b.kind == "Closure" and root == 2:
            if not elems and ty == "usize":
                # the closure must be the argument of Option::map applied to a checked position in the parent
                parent = facts.body_by_path_opt(b.parent)
                if parent is not None:
                    for c in parent.calls():
                        if c.path in ("std::option::Option::map", "std::option::Option::map_or", "std::option::Option::and_then",
                                      "std::option::Option::map_or_else"):
                            mine = False
                            for a in c.args[1:]:
                                if a and a[0] in ("c", "m"):
                                    d = single_def(parent, a[1][0])
                                    if d and d[0] == "assign" and d[3][0] == "agg" and d[3][2] == b.path:
                                        mine = True
                            if not mine:
                                continue
                            hit = _option_from_position(facts, parent, operand_term(parent, c.args[0]))
                            if hit is not None:
                                hb, hc = hit
                                k = (hb.crate + "|" + hb.dp, hc.bb)
                                if k in checked_positions:
                                    return "position-checked" if checked_positions[k] else "position-with-incomplete-key"
                                return "position-over-other-table"
                return "closure-parameter"
            if elems and elems[0] == "0" and ty.startswith("(usize,"):
                return "enumerate-index"
        if elems and elems[-1] == "0" and "usize" in ty:
            return "enumerate-index"
        return "path:%s" % term_str(b, t)
    if t[0] == "proj":
        # (iter.next() as Some).0 .0   -> for (i, x) in xs.iter().enumerate()
        inner = t[1]
        if inner[0] == "call" and "std::iter::Iterator::next" in inner[1].names() and "Enumerate" in inner[1].self_ty:
            return "enumerate-index"
    return t[0]


# ------------------------------------------------------------------------------------------------------------------ R18.4
GC = "parol::generators::grammar_config::GrammarConfig"
SCFG = "parol::generators::scanner_config::ScannerConfig"
NUMBERED_FIELDS = ("skip_tokens", "transitions")


def renumbering_on_grammar_change(ctx, facts):
    """R18.4 token numbers stored outside the grammar follow the grammar: ScannerConfig.skip_tokens and ScannerConfig.transitions
    hold terminal *numbers* (positions in Cfg::get_ordered_terminals, resolved when the grammar text is converted).  Every function
    that replaces GrammarConfig.cfg after construction (update_cfg installs the left-factored / augmented grammar, whose terminals
    can occur in a different order) must also rewrite both fields, and the new numbers must come from a search in the *new*
    grammar's terminal table (a position over a value derived from the cfg parameter, checked by R18.1)."""
    from .common import all_places, fn_key
    writers = {}
    for b in facts.in_crate(PA):
        for bi, kind, p, line in all_places(b):
            if kind == "w" and isinstance(p[-1], list) and p[-1][0] == "f" and p[-1][2] == "cfg" and p[-1][3] == GC:
                writers.setdefault(b.root_fn(facts).path, (b, line))
    post = {k: v for k, v in writers.items() if not (k.endswith("::new") or "Default" in k or "::with_" in k or "try_from" in k.lower())}
    if not post:
        raise AnchorMissing("no function replaces GrammarConfig.cfg after construction (update_cfg vanished?)")
    for path, (b, line) in sorted(post.items()):
        root = b.root_fn(facts)
        fam = facts.family(root)
        touched = set()
        for fb in fam:
            for bi, kind, p, l2 in all_places(fb):
                for e in p[1:]:
                    if isinstance(e, list) and e[0] == "f" and e[3] == SCFG and e[2] in NUMBERED_FIELDS:
                        # written directly, or borrowed mutably (iter_mut / sort / dedup)
                        if kind == "w":
                            touched.add(e[2])
            for bi, si, p, rv, l2, mac in fb.assigns():
                if rv[0] == "ref" and rv[1] is True:
                    for e in rv[-1][1:]:
                        if isinstance(e, list) and e[0] == "f" and e[3] == SCFG and e[2] in NUMBERED_FIELDS:
                            touched.add(e[2])
        # the new numbers are looked up in a table derived from the new grammar (parameter) - some position() in the family
        searches = [c for fb in fam for c in fb.calls() if (c.path or "").split("::")[-1] in ("position", "terminal_index")]
        ok = set(NUMBERED_FIELDS) <= touched and bool(searches)
        ctx.check(ok, "R18.4", "%s|renumbers-scanner-token-lists" % short(path),
                  "%s rewrites ScannerConfig.skip_tokens and .transitions when it replaces the grammar" % short(path),
                  "%s replaces GrammarConfig.cfg but leaves %s of the scanner configurations untouched: these lists hold terminal "
                  "numbers of the *old* grammar; left factoring can move alternatives together and change the order of first "
                  "occurrence, after which `%%on Q %%enter Other` switches the scanner on another terminal"
                  % (short(path), sorted(set(NUMBERED_FIELDS) - touched) or "the lookup in the new grammar"), where(b, line))
        renumber_direction(ctx, facts, root, fam, b, line)
    ctx.require_floor("R18.4", "grammar_replacing_functions", len(post), 1)


THROUGH = {"std::ops::Deref::deref", "std::ops::DerefMut::deref_mut", "core::slice::iter", "std::vec::Vec::as_slice",
           "std::iter::IntoIterator::into_iter", "std::clone::Clone::clone", "std::borrow::Borrow::borrow",
           "std::convert::AsRef::as_ref"}


def resolve_to_root(facts, body, place, depth=12):
    """follow a place of a (nested) closure through transparent calls and captured variables up to the body that owns the
    variable: returns (owner body, raw place there)"""
    from ..dataflow import raw_place
    while depth > 0:
        depth -= 1
        rp = raw_place(body, place)
        d = single_def(body, rp[0]) if len([e for e in rp[1:] if e != "*"]) == 0 else None
        if d and d[0] == "call" and d[3].args and (d[3].names() & THROUGH) and d[3].args[0][0] in ("c", "m"):
            place = d[3].args[0][1]
            continue
        if body.kind == "Closure" and rp[0] == 1:
            fs = [e for e in rp[1:] if isinstance(e, list) and e[0] == "f"]
            parent = facts.body_by_path_opt(body.parent)
            if not fs or parent is None:
                return body, rp
            idx = fs[0][1]
            agg = None
            for bi, si, p2, rv, line, mac in parent.assigns():
                if rv[0] == "agg" and rv[1] == "closure" and rv[2] == body.path:
                    agg = rv
            if agg is None or idx >= len(agg[4]) or agg[4][idx][0] not in ("c", "m"):
                return body, rp
            body, place = parent, agg[4][idx][1]
            continue
        return body, rp
    return body, place


def renumber_direction(ctx, facts, root, fam, wb, wline):
    """R18.4b (added after seed C21-c) direction of the renumbering: a stored number is an index into the terminal table of the
    grammar that is being *replaced* and the new number is a position in the table of the grammar that is *installed*.  Tables are
    the results of Cfg::get_ordered_terminals[_owned] in the replacing function: `old` = called on self.cfg before the write to
    self.cfg, `new` = called on the new grammar (a parameter, or self.cfg after the write).  Swapped roles apply the inverse
    permutation (right only for identities and exchanges of two terminals)."""
    from .. import cfg as cfgmod
    if wb is not root:
        return
    dom = cfgmod.Dom(root)
    # block of the write to self.cfg
    wblocks = [bi for bi, kind, p, l2 in __import__("pv.rules.common", fromlist=["all_places"]).all_places(root)
               if kind == "w" and isinstance(p[-1], list) and p[-1][0] == "f" and p[-1][2] == "cfg" and p[-1][3] == GC]
    tables = {}
    for c in root.calls():
        if (c.path or "").split("::")[-1] in ("get_ordered_terminals", "get_ordered_terminals_owned") and c.args:
            rp = raw_operand_place(root, c.args[0])
            role = None
            if rp and rp[0] == 1 and any(isinstance(e, list) and e[0] == "f" and e[2] == "cfg" and e[3] == GC for e in rp[1:]):
                before = all(dom.dominates(c.bb, w) and c.bb != w for w in wblocks)
                after = any(dom.dominates(w, c.bb) for w in wblocks)
                role = "old" if before else ("new" if after else None)
            elif rp and 2 <= rp[0] <= root.nargs:
                role = "new"
            if role:
                tables[c.dest[0]] = role
    if len(set(tables.values())) < 2:
        return      # not the two-table idiom; R18.4 proper has judged presence
    uses = []
    for fb in fam:
        for c in fb.calls():
            last = (c.path or "").split("::")[-1]
            if "TerminalKind" not in (c.self_ty or ""):
                continue
            if last in ("get", "index", "get_unchecked", "nth") and c.args:
                kind = "indexed"
                recv = c.args[0]
            elif last in ("position", "rposition", "find", "find_map") and c.args:
                kind = "searched"
                recv = c.args[0]
            else:
                continue
            if recv[0] not in ("c", "m"):
                continue
            owner, rp = resolve_to_root(facts, fb, recv[1])
            if owner is root and rp[0] in tables:
                uses.append((kind, tables[rp[0]], fb, c))
    n = 0
    for kind, role, fb, c in uses:
        n += 1
        want = "old" if kind == "indexed" else "new"
        ctx.check(role == want, "R18.4", "%s|renumber-direction|%s" % (short(root.path), kind),
                  "the %s table is the %s grammar's" % (kind, role),
                  "%s renumbers in the wrong direction: the stored token number is %s the terminal table of the %s grammar (must be "
                  "the %s one): the inverse permutation is applied, %%skip / %%on entries end up on other terminals whenever the "
                  "transformation rotates three or more terminals" % (short(root.path), "used as an index into" if kind == "indexed"
                                                                      else "looked up by position in", role, want), where(fb, c.line))
    if n == 0:
        ctx.info("R18.4", "renumber direction: no indexed / searched use of the two terminal tables found in %s" % short(root.path))


def no_terminal_keyed_maps(ctx, facts):
    """R18.5 (added after seed C18-b; expected count 0) terminals are identified by the reviewed linear searches only: no
    std::collections map / set in the parol library is keyed by components of a terminal's identity (a key type that mentions
    LookaheadExpression or TerminalKind).  `TerminalKind` has no total equality that coincides with `behaves_like` (legacy and
    regex literals behave alike), and a key without the kind merges 'x' with "x": a map lookup is therefore a new, unreviewed
    way of identifying terminals."""
    hits = []
    n = 0
    for b in facts.in_crate(PA):
        n += 1
        for i, (ty, name) in enumerate(b.locals):
            if not ty.startswith("std::collections::"):
                continue
            head = ty.split("<", 1)[0]
            if not head.endswith(("Map", "Set")):
                continue
            inner = ty.split("<", 1)[1] if "<" in ty else ""
            # key = first type argument (up to the first top-level comma)
            depth = 0
            key = ""
            for ch in inner:
                if ch in "<([":
                    depth += 1
                elif ch in ">)]":
                    depth -= 1
                elif ch == "," and depth == 0:
                    break
                key += ch
            if "LookaheadExpression" in key or "TerminalKind" in key:
                hits.append((b, name or "_%d" % i, ty))
    for b, name, ty in hits:
        ctx.bad("R18.5", "%s|terminal-keyed-%s" % (fn_key(b, facts), name),
                "`%s: %s` is an associative container keyed by parts of a terminal's identity: token numbers obtained from it do "
                "not follow the identity that Cfg::get_ordered_terminals uses (text, kind through behaves_like, look-ahead); e.g. "
                "a key without the kind gives '.' and \".\" the same token number in the production table while the scanner "
                "keeps them apart" % (name, ty[:140]), where(b))
    ctx.check(not hits, "R18.5", "no-terminal-keyed-maps", "no map/set keyed by terminal identity components in %d bodies" % n,
              "%d such container(s)" % len(hits), nontrivial=False)
    ctx.require_floor("R18.5", "bodies_scanned", n, 1000)
