"""C25 Rendering a grammar as PAR text round-trips - claimed clause: nothing is silently dropped.

R25.1 field_read_coverage: every text-borne field of GrammarConfig / Cfg / ScannerConfig / Pr is read in the
      renderer (render_par_string, render_scanner_config_string, Pr::format and their closures); every component of
      Terminal::Trm is read in Terminal::format, every component of Symbol::N in Symbol::format.
      A field that is added to one of these types must be classified (fail closed).
R25.2 directive polarity: the `%allow_unmatched`, `%auto_newline_off`, `%auto_ws_off` templates are emitted on the
      edge of the corresponding bool field that the reader maps the directive to.
R25.4 priority of the user-type resolver: later HashMap inserts override earlier ones, so the map must be filled in the
      order aliases (%user_type) -> %nt_type sentinels -> %t_type sentinel; otherwise a globally defined terminal or
      non-terminal type is rendered explicitly (or an alias is lost) and the text read back differs.
R25.5 / R25.6 see delimiter_rules: rendering order literal < look-ahead < AST control in Terminal::format; every literal is
      quoted with the delimiter of its own kind.
R25.7 scanner transitions are grouped for rendering by a key that keeps their switch kind.
R25.3 the skip sentinels "%nt_type"/"%t_type" are only *compared* in the format functions, never produced there:
      a format function that manufactures the sentinel drops a user type that has no global definition.
"""
from .. import cfg
from ..dataflow import operand_term, raw_operand_place, forward_derived
from ..facts import AnchorMissing
from .common import PA, where, short, all_places, control_dependence_no_errors, transitive_control_deps

CRATES = ["parol.lib"]

META = {
    "explanation": "Decides the 'nothing is silently dropped' clause of C25: a renderer that never reads a text-borne "
                   "field cannot reproduce it; bool directives are emitted with the polarity the reader uses; the "
                   "skip sentinels are not manufactured by the formatters. Quoting/escaping and exact text equality of "
                   "the round trip are NOT decided.",
}

GC = "parol::generators::grammar_config::GrammarConfig"
SC = "parol::generators::scanner_config::ScannerConfig"
CFG = "parol::grammar::cfg::Cfg"
PR = "parol::grammar::production::Pr"
TERMINAL = "parol::grammar::symbol::Terminal"
SYMBOL = "parol::grammar::symbol::Symbol"
M = "parol::conversions::par::grammar_to_par::"

# field classification (frozen; a new field must be added here with a reason)
TEXT_BORNE = {
    GC: {"cfg", "grammar_type", "title", "comment", "user_type_defs", "nt_type_defs", "t_type_def",
         "scanner_configurations"},
    SC: {"scanner_name", "line_comments", "block_comments", "auto_newline", "auto_ws", "allow_unmatched",
         "skip_tokens", "transitions"},
    CFG: {"st", "pr"},
    PR: {"0", "1", "2"},
}
NOT_TEXT = {
    GC: {"non_terminals": "derived from the productions", "lookahead_size": "command line / builder option",
         "unreachable_non_terminals_to_ignore": "derived from %skip / %on directives"},
    SC: {"scanner_state": "the index of the scanner in the list"},
    CFG: {},
    PR: {},
}


def reads_in(facts, roots, adt):
    out = set()
    n = 0
    for r in roots:
        for b in facts.family(r):
            n += 1
            for bi, kind, p, line in all_places(b):
                for i, e in enumerate(p[1:]):
                    if isinstance(e, list) and e[0] == "f" and e[3] == adt:
                        if kind == "w" and i == len(p) - 2:
                            continue
                        out.add(e[2])
    return out, n


def variant_fields_read(facts, roots, adt, variant):
    """components of an enum variant that are read; a component that is only *bound* by the match pattern
    (`L = &(self as V).i`) counts as read only if the bound local L is used afterwards (`_m` bindings are not reads)"""
    from ..dataflow import uses_of_local

    def field_of(p):
        for i, e in enumerate(p[1:]):
            if isinstance(e, list) and e[0] == "d" and e[1] == variant and i + 2 < len(p):
                nx = p[i + 2]
                if isinstance(nx, list) and nx[0] == "f" and nx[3] == adt:
                    return nx[1], (i + 2 == len(p) - 1)
        return None, False

    out = set()
    for r in roots:
        for b in facts.family(r):
            bound_only = {}
            for bi, si, p, rv, line, mac in b.assigns():
                if rv[0] in ("ref", "ptr") and len(p) == 1:
                    f, last = field_of(rv[-1])
                    if f is not None and last:
                        bound_only.setdefault(f, []).append(p[0])
            direct = set()
            for bi, kind, p, line in all_places(b):
                f, last = field_of(p)
                if f is not None and kind == "r":
                    direct.add((f, bi, line))
            for f, locs in bound_only.items():
                if any(uses_of_local(b, l) for l in locs):
                    out.add(f)
            # reads that are not pattern bindings (copies, deeper projections, discriminant reads)
            for bi, si, p, rv, line, mac in b.assigns():
                if rv[0] in ("use", "cast") and rv[1 if rv[0] == "use" else 2][0] in ("c", "m"):
                    f, last = field_of(rv[1 if rv[0] == "use" else 2][1])
                    if f is not None:
                        out.add(f)
                elif rv[0] in ("ref", "ptr", "disc", "cfd"):
                    f, last = field_of(rv[-1])
                    if f is not None and not last:
                        out.add(f)
                    elif f is not None and last and len(p) != 1:
                        out.add(f)
                    elif f is not None and rv[0] == "disc":
                        out.add(f)
    return out


def check(ctx):
    facts = ctx.facts()
    render = facts.body(M + "render_par_string")
    rsc = facts.body(M + "render_scanner_config_string")
    prf = facts.body("parol::grammar::production::Pr::format")
    tf = facts.body("parol::grammar::symbol::Terminal::format")
    sf = facts.body("parol::grammar::symbol::Symbol::format")
    roots = [render, rsc, prf]
    ctx.count("functions_analysed", sum(len(facts.family(r)) for r in roots + [tf, sf]))

    for adt in (GC, SC, CFG, PR):
        decl = [f for f, _t in facts.adt_fields(adt)]
        unknown = [f for f in decl if f not in TEXT_BORNE[adt] and f not in NOT_TEXT[adt]]
        ctx.check(not unknown, "R25.1", "%s|fields-classified" % short(adt),
                  "all %d fields of %s are classified (text-borne or derived)" % (len(decl), short(adt)),
                  "field(s) %s of %s are not classified as text-borne/derived: decide whether the PAR renderer must "
                  "write them (fail closed)" % (unknown, short(adt)), nontrivial=False)
        gone = [f for f in TEXT_BORNE[adt] if f not in decl]
        if gone:
            raise AnchorMissing("field(s) %s of %s no longer exist" % (gone, adt))
        rd, nb = reads_in(facts, roots, adt)
        for f in sorted(TEXT_BORNE[adt]):
            ctx.check(f in rd, "R25.1", "%s.%s|read-by-renderer" % (short(adt), f),
                      "%s.%s is read by the PAR renderer" % (short(adt), f),
                      "%s.%s is set from grammar text but never read by the PAR renderer: it cannot survive a "
                      "render/parse round trip" % (short(adt), f), where(render if adt in (GC, CFG) else rsc))
    trm = variant_fields_read(facts, [tf], TERMINAL, "Trm")
    ntrm = len(facts.adt_fields(TERMINAL, "Trm"))
    for i in range(ntrm):
        if i == 4 - 1 and False:
            pass
        ctx.check(i in trm, "R25.1", "Terminal::Trm.%d|read-by-format" % i,
                  "component %d of Terminal::Trm is read by Terminal::format" % i,
                  "component %d of Terminal::Trm (text, kind, scanner states, attribute, user type, member, look-ahead) "
                  "is never read by Terminal::format" % i, where(tf))
    sn = variant_fields_read(facts, [sf], SYMBOL, "N")
    nn = len(facts.adt_fields(SYMBOL, "N"))
    for i in range(nn):
        ctx.check(i in sn, "R25.1", "Symbol::N.%d|read-by-format" % i,
                  "component %d of Symbol::N is read by Symbol::format" % i,
                  "component %d of Symbol::N (name, attribute, user type, member) is never read by Symbol::format" % i,
                  where(sf))
    ctx.require_floor("R25.1", "trm_components", ntrm, 7)
    ctx.require_floor("R25.1", "n_components", nn, 4)

    # ---------------------------------------------------------------- R25.2
    cd = control_dependence_no_errors(rsc)
    want = {"%allow_unmatched": ("allow_unmatched", True), "%auto_newline_off": ("auto_newline", False),
            "%auto_ws_off": ("auto_ws", False)}
    found = {}
    for bi, si, p, rv, line, mac in rsc.assigns():
        if rv[0] == "use" and rv[1][0] == "k" and isinstance(rv[1][2], str):
            for d in want:
                if d in rv[1][2]:
                    found.setdefault(d, []).append((bi, line))
    for d, (field, polarity) in want.items():
        sites = found.get(d, [])
        if len(sites) != 1:
            ctx.bad("R25.2", "%s|template" % d, "expected exactly one template emitting %s in "
                    "render_scanner_config_string, found %d" % (d, len(sites)), where(rsc))
            continue
        bi, line = sites[0]
        deps = transitive_control_deps(rsc, bi, cd=cd)
        ok = False
        for a, s, k in deps:
            if k and k[0] == "field" and k[2] and k[2][-1] == field:
                neg = k[3]
                # which switch value leads to s?
                vals = [v for v, t in rsc.switch_edges(a) if t == s]
                truth = any(v != 0 for v in vals)  # `otherwise` is None -> non-zero
                if neg:
                    truth = not truth
                ok = (truth == polarity)
        ctx.check(ok, "R25.2", "%s|polarity" % d,
                  "%s is emitted exactly when ScannerConfig.%s is %s" % (d, field, polarity),
                  "%s is not emitted on the `%s == %s` edge (the reader sets %s accordingly when it sees the "
                  "directive)" % (d, field, polarity, field), where(rsc, line))
    # reader side: to_grammar_config negates the *_off flags
    conv = facts.body("parol::parser::to_grammar_config::try_to_convert")
    negs = {}
    for bi, si, p, rv, line, mac in conv.assigns():
        if rv[0] == "un" and rv[1] == "Not":
            rp = raw_operand_place(conv, rv[2])
            if rp:
                names = [e[2] for e in rp[1:] if isinstance(e, list) and e[0] == "f"]
                if names:
                    negs[names[-1]] = line
    for f in ("auto_newline_off", "auto_ws_off"):
        ctx.check(f in negs, "R25.2", "reader|%s-negated" % f,
                  "the reader maps %s to the negated positive flag" % f,
                  "try_to_convert no longer negates %s: renderer polarity and reader disagree" % f, where(conv))

    # ---------------------------------------------------------------- R25.3
    for body, sentinels in ((sf, ("%nt_type", "%t_type")), (tf, ("%nt_type", "%t_type"))):
        for b in facts.family(body):
            for c in b.calls():
                for i, a in enumerate(c.args):
                    if a[0] == "k" and a[2] in sentinels:
                        n = (c.path or "").split("::")[-1]
                        is_cmp = n in ("eq", "ne")
                        ctx.check(is_cmp, "R25.3", "%s|sentinel-%s-%s" % (short(body.path), a[2], n),
                                  "the sentinel %s is only compared (%s)" % (a[2], n),
                                  "%s manufactures the skip sentinel %s (via %s): a user type without global definition "
                                  "is then dropped from the rendered text" % (short(body.path), a[2], short(c.path or "?")),
                                  where(b, c.line))
            for bi, si, p, rv, line, mac in b.assigns():
                if rv[0] in ("use", "cast"):
                    o = rv[1] if rv[0] == "use" else rv[2]
                    if o[0] == "k" and o[2] in sentinels:
                        # constant moved into a temporary: follow to its consumers
                        der = forward_derived(b, [p[0]], through_calls=lambda c: False)
                        for c in b.calls():
                            if any(x[0] in ("c", "m") and x[1][0] in der for x in c.args):
                                n = (c.path or "").split("::")[-1]
                                is_cmp = n in ("eq", "ne")
                                ctx.check(is_cmp, "R25.3", "%s|sentinel-%s-%s" % (short(body.path), o[2], n),
                                          "the sentinel %s is only compared (%s)" % (o[2], n),
                                          "%s manufactures the skip sentinel %s (via %s): a user type without global "
                                          "definition is then dropped from the rendered text"
                                          % (short(body.path), o[2], short(c.path or "?")), where(b, c.line))

    # ---------------------------------------------------------------- R25.4
    res = facts.body("parol::generators::grammar_config::GrammarConfig::get_user_type_resolver")
    ev = {}
    for c in res.calls():
        if (c.path or "").endswith("Iterator::fold"):
            src = operand_term(res, c.args[0])
            hops = 0
            while src[0] == "call" and hops < 4:
                f = [e[2] for e in (raw_operand_place(res, src[1].args[0]) or [0])[1:] if isinstance(e, list) and e[0] == "f"] \
                    if src[1].args else []
                if "user_type_defs" in f:
                    ev["user"] = c.bb
                    break
                if "nt_type_defs" in f:
                    ev["nt"] = c.bb
                    break
                src = operand_term(res, src[1].args[0]) if src[1].args else ("unknown",)
                hops += 1
    for bi, blk in enumerate(res.blocks):
        for st in blk["s"]:
            if st[0] == "a" and '"%t_type"' in __import__("json").dumps(st[2]):
                ev.setdefault("t", bi)
        t = blk["t"]
        if t[0] == "call" and '"%t_type"' in __import__("json").dumps(t[2]):
            ev.setdefault("t", bi)
    if set(ev) != {"user", "nt", "t"}:
        raise AnchorMissing("get_user_type_resolver: cannot find the three fill steps (found %s)" % sorted(ev))
    order_ok = ev["user"] not in cfg.reachable_from(res, ev["nt"]) - {ev["nt"]} and \
        ev["user"] not in cfg.reachable_from(res, ev["t"]) and ev["nt"] not in cfg.reachable_from(res, ev["t"])
    ctx.check(order_ok, "R25.4", "get_user_type_resolver|sentinels-override-aliases",
              "the resolver map is filled aliases -> %nt_type -> %t_type (later inserts win)",
              "the user-type resolver inserts an alias after a skip sentinel: for a type that has both a global "
              "%t_type/%nt_type definition and a %user_type alias the renderer prints the alias explicitly, the text read "
              "back is a different grammar", where(res))
    delimiter_rules(ctx, facts)
    transitions_grouped_with_their_kind(ctx, facts)


# ----------------------------------------------------------------------------------------------------------- R25.5 / R25.6
DELIM = "parol::grammar::symbol::TerminalKind::delimiter"
DECORATE = "parol::grammar::attributes::Decorate::decorate"


def _fmt_arg_sequences(body):
    """for every `[core::fmt::rt::Argument; N]` array: the operands handed to Argument::new_* in array order,
    as [(array line, [operand, ...])]"""
    from ..dataflow import single_def
    out = []
    for bi, si, p, rv, line, mac in body.assigns():
        if rv[0] == "agg" and rv[1] == "array" and "core::fmt::rt::Argument" in body.local_ty(p[0]):
            seq = []
            for o in rv[4]:
                rp = raw_operand_place(body, o)
                d = single_def(body, rp[0]) if rp else None
                if d and d[0] == "call" and "Argument" in (d[3].path or "") and d[3].args:
                    seq.append(_through_tuple(body, d[3].args[0]))
                else:
                    seq.append(None)
            out.append((line, seq))
    return out


def _through_tuple(body, op):
    """format_args! packs its arguments into a tuple of references and reads them back by field: resolve `(_t.N)` to the
    N-th operand of the tuple aggregate"""
    from ..dataflow import single_def
    rp = raw_operand_place(body, op)
    if rp and len(rp) >= 2 and isinstance(rp[1], list) and rp[1][0] == "f":
        d = single_def(body, rp[0])
        if d and d[0] == "assign" and d[3][0] == "agg" and d[3][1] == "tuple":
            idx = rp[1][1]
            if isinstance(idx, int) and idx < len(d[3][4]):
                return d[3][4][idx]
    return op


def _base(place):
    """a place without its last field projection (the object a field belongs to)"""
    if place is None:
        return None
    elems = [e for e in place[1:]]
    while elems and elems[-1] == "*":
        elems.pop()
    if elems and isinstance(elems[-1], list) and elems[-1][0] == "f":
        elems.pop()
    while elems and elems[-1] == "*":
        elems.pop()
    return (place[0], json_key(elems))


def json_key(x):
    import json
    return json.dumps(x, sort_keys=True)


def delimiter_rules(ctx, facts):
    """R25.6 a literal is quoted with the delimiter of its *own* kind: in every format template that renders `D X D` with
    D = TerminalKind::delimiter(k), the text X and the kind k are fields of the same object (the terminal's own (text, kind),
    or the look-ahead expression's own (pattern, kind)).  Quoting a look-ahead pattern with the terminal's delimiter renders
    `'.' ?! /[0-9]/` as `'.' ?! '[0-9]'`, which reads back as a different terminal kind.
    R25.5 rendering order of Terminal::format follows the PAR grammar (TokenLiteral [LookAhead] [ASTControl]): the look-ahead
    is rendered into the text that Decorate::decorate receives (or before that call); nothing of the look-ahead is written
    after the cut operator / member / user type have been appended."""
    from ..dataflow import single_def
    n = 0
    for b in facts.in_crate(PA):
        if not any(c.path == DELIM for c in b.calls()):
            continue
        if b.path == DELIM:
            continue
        # delimiter locals -> kind place
        kinds = {}
        for c in b.calls():
            if c.path == DELIM and c.dest and len(c.dest) == 1:
                kinds[c.dest[0]] = raw_operand_place(b, c.args[0])
        for line, seq in _fmt_arg_sequences(b):
            # NB: the array holds each *distinct* argument once (named arguments that repeat are shared), so the rule is
            # stated per template, not per placeholder position
            places = [raw_operand_place(b, o) if o else None for o in seq]
            ds = [pl for pl in places if pl is not None and len(pl) == 1 and pl[0] in kinds]
            if not ds:
                continue
            owners = {_base(kinds[pl[0]]) for pl in ds}
            texts = []
            for pl in places:
                if pl is None or (len(pl) == 1 and pl[0] in kinds):
                    continue
                fl = [e for e in pl[1:] if isinstance(e, list) and e[0] == "f"]
                if fl and (fl[-1][3].endswith("::Terminal") and fl[-1][1] == 0 or
                           fl[-1][3].endswith("LookaheadExpression") and fl[-1][2] == "pattern"):
                    texts.append(pl)
                elif not fl and "String" in b.local_ty(pl[0]):
                    ctx.info("R25.6", "%s line %d: quoted text is a computed local, not decided" % (short(b.path), line))
            for pl in texts:
                n += 1
                xb = _base(pl)
                ok = len(owners) == 1 and xb in owners
                ctx.check(ok, "R25.6", "%s|own-delimiter|%s" % (short(b.path), [e[2] for e in pl[1:] if isinstance(e, list) and e[0] == "f"][-1]),
                          "the quoted text and the kind of its delimiter are fields of the same object",
                          "%s quotes a literal with the delimiter of another object's kind (text is a field of %s, the delimiter's "
                          "kind a field of %s): a look-ahead / terminal literal is rendered with the wrong quotes and reads back "
                          "as a different terminal kind" % (short(b.path), xb, sorted(owners)), where(b, line))
    ctx.require_floor("R25.6", "quoted_literals", n, 2)
    # R25.5
    tf = facts.body("parol::grammar::symbol::Terminal::format")
    decs = [c for c in tf.calls() if DECORATE in c.names() or (c.path or "").endswith("::decorate")]
    las = [c for c in tf.calls() if (c.path or "").endswith("LookaheadExpression::to_par")]
    if not las:
        # inlined rendering: any read of a field of the look-ahead object
        las = []
    if len(decs) != 1:
        raise AnchorMissing("Terminal::format: expected one decorate call, found %d" % len(decs))
    after = cfg.reachable_from(tf, decs[0].bb)
    late = [c for c in las if c.bb in after and c.bb != decs[0].bb]
    # reads of look-ahead fields (pattern / kind / is_positive) after decorate
    late_reads = []
    for bi, kind, p, line in all_places(tf):
        if bi in after and bi != decs[0].bb and kind == "r":
            names = [e[2] for e in p[1:] if isinstance(e, list) and e[0] == "f"]
            adts = [e[3] for e in p[1:] if isinstance(e, list) and e[0] == "f"]
            if any("LookaheadExpression" in a for a in adts) and names and names[-1] in ("pattern", "kind", "is_positive"):
                late_reads.append(line)
    ctx.check(bool(las or True) and not late and not late_reads, "R25.5", "Terminal::format|lookahead-before-ast-control",
              "the look-ahead is rendered before Decorate::decorate appends the AST control",
              "Terminal::format renders the look-ahead (line %s) after Decorate::decorate appended the cut operator: "
              "`\"a\" ?= \"b\"^` is rendered as `\"a\"^ /* Clipped */ ?= \"b\"`, which parol cannot read back (PAR: TokenLiteral "
              "[LookAhead] [ASTControl])" % ([c.line for c in late] + late_reads), where(tf, decs[0].line))


def transitions_grouped_with_their_kind(ctx, facts):
    """R25.7 (added after seed C25-c) the renderer writes one `%on ..` directive per group of scanner transitions; a group may
    only unite transitions that agree in everything the directive states - switch kind (%enter / %push / %pop) and target.  The
    key closure of every grouping of `ScannerConfig.transitions` in render_scanner_config_string therefore returns the whole
    ScannerStateSwitch value (or something that carries its discriminant); a key made of the target name alone unites
    `%enter Str` with `%push Str` and renders both with the first one's keyword."""
    from .common import closure_of_arg_any
    rsc = facts.body(M + "render_scanner_config_string")
    n = 0
    for b in facts.family(rsc):
        for c in b.calls():
            nm = (c.path or "").split("::")[-1]
            if nm not in ("group_by", "chunk_by", "into_group_map_by", "sort_by_key", "dedup_by_key"):
                continue
            src = operand_term(b, c.args[0], through_calls=True) if c.args else ("unknown",)
            names = [str(x) for x in (src[2] if src[0] == "path" else ())]
            if "transitions" not in names:
                continue
            cl = closure_of_arg_any(facts, b, c)
            if cl is None:
                continue
            n += 1
            kty = cl.local_ty(0)
            ok = "ScannerStateSwitch" in kty or "Discriminant<" in kty
            ctx.check(ok, "R25.7", "render_scanner_config_string|%s-key-keeps-switch-kind" % nm,
                      "transitions are grouped by a key of type %s" % kty[:80],
                      "render_scanner_config_string groups the scanner transitions by a key of type `%s`, which no longer tells "
                      "%%enter, %%push and %%pop apart: transitions of different kinds to one target are rendered as one directive with "
                      "the first one's keyword, the text reads back as another scanner configuration" % kty[:80], where(b, c.line))
    ctx.require_floor("R25.7", "transition_groupings", n, 1)
