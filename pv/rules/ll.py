"""anchors shared by the rules about the LL(k) runtime parser (C01, C02, C14, C19, C20)"""
from ..facts import AnchorMissing

P = "parol_runtime::parser::parser_types::LLKParser::"
LLK = "parol_runtime::parser::parser_types::LLKParser"
PARSE_INTO = P + "parse_into"
PARSE = P + "parse"
INPUT_ACCEPTED = P + "input_accepted"
ADD_ERROR = P + "add_error"
PUSH_PRODUCTION = P + "push_production"
PROCESS_ITEM_STACK = P + "process_item_stack"
PREDICT = P + "predict_production"
H_MISMATCH = P + "handle_token_mismatch"
H_PREDICTION = P + "handle_prediction_error"
R_PREDICTION = P + "recover_from_prediction_error"
R_MISMATCH = P + "recover_from_token_mismatch"
ADJUST = P + "adjust_token_stream"
SYNC = P + "sync_token_stream"
H_ADDITIONAL = P + "handle_additional_tokens"
IS_RECOVERY_ENABLED = P + "is_recovery_enabled"
IS_IN_RECOVERY = P + "is_in_recovery_mode"
TS = "parol_runtime::lexer::token_stream::TokenStream::"
PARSE_TYPE = "parol_runtime::parser::parse_type::ParseType"
USER_ACTION = "parol_runtime::parser::user_access::UserActionsTrait::call_semantic_action_for_production_number"
TC = "parol_runtime::parser::parse_tree_type::TreeConstruct::"


def main_loop(body, cfgmod):
    """the loop of parse_into that contains the input_accepted() call"""
    cs = body.calls_to(INPUT_ACCEPTED)
    if len(cs) != 1:
        raise AnchorMissing("parse_into: expected one call of input_accepted, found %d" % len(cs))
    loops = [l for l in cfgmod.natural_loops(body) if cs[0].bb in l[1]]
    if not loops:
        raise AnchorMissing("parse_into: input_accepted() is not evaluated in a loop")
    loops.sort(key=lambda l: -len(l[1]))
    return cs[0], loops[0]
