"""C11 Grammar well-formedness checks are exact - claimed clause: the rejection wiring.

R11.1 check_and_transform_grammar_with_ignored: success is dominated by non_productive_non_terminals and
      unreachable_non_terminals and passes only their `empty` edges; each Err payload derives from the set that
      was tested; check_and_transform_ll likewise for detect_left_recursive_non_terminals.
R11.2 the only GrammarAnalysisError variants constructed in grammar_trans are NonProductiveNonTerminals,
      UnreachableNonTerminals, LeftRecursion, each exactly once and on the non-empty edge of its own test;
      the LR branch performs no left-recursion rejection.
R11.4 monotone change flags: in the fixpoint loops of the analyses (left recursion closure etc.) the `changed` flag is
      only accumulated (`|=`) or set to a constant inside nested loops - a necessary condition for reaching the fixpoint.
R11.3 the public entry check_and_transform_grammar delegates with an empty ignore set.
R11.6 the left-recursion scan takes nullability from Cfg::calculate_nullable_non_terminals.
R11.5 sequences of symbols are not measured by set cardinality in the well-formedness analyses (hazard rule, expected count 0).
Exactness of the computed sets (fixpoints over arbitrary grammars) is NOT decided.
"""
from .. import cfg
from ..dataflow import forward_derived, operand_term, single_def, raw_operand_place
from ..facts import AnchorMissing
from .common import PA, where, short, emptiness_gate, classify_switch, only_via_edge

CRATES = ["parol.lib", "parol_runtime.lib"]

META = {
    "explanation": "Decides the rejection wiring of C11: a grammar can reach the transformation stages only when the "
                   "non-productive, unreachable and (LL) left-recursive sets were computed and found empty, and each "
                   "rejection names the very set that was tested. The exactness of nullable/productive/reachable/"
                   "left-recursive sets is a value property of fixpoint computations and is not decided.",
}

M = "parol::generators::grammar_trans::"
GAE = "parol::analysis::errors::GrammarAnalysisError"


def err_payload_check(ctx, body, rule, variant, derived, gate_blocks, key):
    aggs = [(bi, rv, line) for bi, si, p, rv, line, mac in body.assigns()
            if rv[0] == "agg" and rv[2] == GAE and rv[3] == variant]
    if len(aggs) != 1:
        ctx.bad(rule, "%s|%s|count" % (key, variant),
                "expected exactly one construction of GrammarAnalysisError::%s, found %d" % (variant, len(aggs)),
                where(body))
        return
    bi, rv, line = aggs[0]
    ops = [o for o in rv[4] if o[0] in ("c", "m")]
    from_set = any(o[1][0] in derived for o in ops)
    on_edge = any(only_via_edge(body, d, {v for v, _t in body.switch_edges(d) if v not in vals}, bi)
                  for d, vals in gate_blocks)
    ctx.check(from_set and on_edge, rule, "%s|%s|payload" % (key, variant),
              "Err(%s) is built from the tested set on the non-empty edge" % variant,
              "Err(%s) is not built from the set that was tested (from_set=%s, on_nonempty_edge=%s)"
              % (variant, from_set, on_edge), where(body, line))


def check(ctx):
    facts = ctx.facts()
    top = facts.body(M + "check_and_transform_grammar_with_ignored")
    ll = facts.body(M + "check_and_transform_ll")
    lr = facts.body(M + "check_and_transform_lr")
    entry = facts.body(M + "check_and_transform_grammar")
    ctx.count("functions_analysed", 4)

    c1, d1, g1 = emptiness_gate(ctx, facts, top, "R11.1", "parol::analysis::productivity::non_productive_non_terminals",
                                "with_ignored|non-productive",
                                "a grammar with non-productive non-terminals would be transformed and analysed")
    err_payload_check(ctx, top, "R11.1", "NonProductiveNonTerminals", d1, g1, "with_ignored")
    c2, d2, g2 = emptiness_gate(ctx, facts, top, "R11.1", "parol::analysis::reachability::unreachable_non_terminals",
                                "with_ignored|unreachable",
                                "a grammar with unreachable non-terminals would be accepted")
    err_payload_check(ctx, top, "R11.1", "UnreachableNonTerminals", d2, g2, "with_ignored")
    # the only filtering applied to the unreachable set is the caller supplied ignore list
    diffs = [c for c in top.calls() if c.path and c.path.endswith("BTreeSet::difference")]
    okd = len(diffs) == 1 and diffs[0].args[1][0] in ("c", "m") and \
        (raw_operand_place(top, diffs[0].args[1]) or [None])[0] == 3
    ctx.check(okd, "R11.1", "with_ignored|only-caller-ignores",
              "the unreachable set is reduced only by the caller's `unreachable_to_ignore` argument",
              "the unreachable set is filtered by something other than the caller supplied ignore set", where(top))
    c3, d3, g3 = emptiness_gate(ctx, facts, ll, "R11.1", "parol::analysis::left_recursion::detect_left_recursive_non_terminals",
                                "ll|left-recursion", "a left-recursive grammar would enter the LL(k) pipeline")
    err_payload_check(ctx, ll, "R11.1", "LeftRecursion", d3, g3, "ll")

    # both computations receive the grammar that is being checked (argument 1)
    for c, name in ((c1, "non_productive"), (c2, "unreachable")):
        rp = raw_operand_place(top, c.args[0])
        ctx.check(bool(rp) and rp[0] == 1, "R11.1", "with_ignored|%s-of-argument" % name,
                  "%s is computed for the cfg argument" % name, "%s is not computed for the cfg argument" % name,
                  where(top, c.line))
    rp = raw_operand_place(ll, c3.args[0])
    ctx.check(bool(rp) and rp[0] == 1, "R11.1", "ll|left-recursion-of-argument",
              "left recursion is computed for the cfg argument", "left recursion is not computed for the cfg argument",
              where(ll, c3.line))

    # dispatch: LLK -> check_and_transform_ll, LALR1 -> check_and_transform_lr on the same cfg
    disp = {}
    for c in top.calls():
        if c.path in (M + "check_and_transform_ll", M + "check_and_transform_lr"):
            disp[c.path] = c
    ctx.check(len(disp) == 2 and all((raw_operand_place(top, c.args[0]) or [None])[0] == 1 for c in disp.values()),
              "R11.1", "with_ignored|dispatch", "both grammar types are dispatched with the checked cfg",
              "dispatch to the LL / LR pipelines is missing or does not pass the checked cfg", where(top))

    # ---------------------------------------------------------------- R11.2
    variants = []
    for b in facts.bodies:
        if b.crate == PA and b.module == "parol::generators::grammar_trans":
            for bi, si, p, rv, line, mac in b.assigns():
                if rv[0] == "agg" and rv[2] == GAE:
                    variants.append((rv[3], short(b.path)))
    exp = ["LeftRecursion", "NonProductiveNonTerminals", "UnreachableNonTerminals"]
    ctx.check(sorted(v for v, _ in variants) == exp, "R11.2", "grammar_trans|error-variants",
              "grammar_trans constructs exactly %s" % exp,
              "grammar_trans constructs %s; expected exactly %s (a grammar is rejected for these reasons and only then)"
              % (sorted(variants), exp), where(top))
    lr_rejects = [c for c in lr.calls() if c.path and ("left_recursion" in c.path)]
    ctx.check(not lr_rejects and not [1 for bi, si, p, rv, l, m in lr.assigns() if rv[0] == "agg" and rv[3] == "Err"],
              "R11.2", "lr|no-left-recursion-rejection", "the LALR(1) branch does not reject left recursion",
              "the LALR(1) branch rejects grammars (left recursion is legal for LR)", where(lr))

    # ---------------------------------------------------------------- R11.4
    monotone_change_flags(ctx, facts, "R11.4", ["parol::analysis", "parol::grammar", "parol::transformation"], 1)
    occurrence_counts(ctx, facts, "R11.5")
    nullability_from_the_fixpoint(ctx, facts)

    # ---------------------------------------------------------------- R11.3
    cs = entry.calls_to(M + "check_and_transform_grammar_with_ignored")
    ok = len(cs) == 1 and cs[0].dest == [0]
    if ok:
        ig = raw_operand_place(entry, cs[0].args[2])
        d = single_def(entry, ig[0]) if ig else None
        ok = bool(d and d[0] == "call" and d[3].path and d[3].path.endswith("BTreeSet::new"))
    ctx.check(ok, "R11.3", "check_and_transform_grammar|delegates-with-empty-ignore-set",
              "the public entry delegates to the checked variant with BTreeSet::new()",
              "check_and_transform_grammar does not delegate with an empty ignore set", where(entry))


# ---------------------------------------------------------------------------------------------------- R11.4
def monotone_change_flags(ctx, facts, rule, modules, floor):
    """fixpoint loops `while changed { changed = false; for x in .. { .. changed |= grew; } }`:
    inside a loop that is nested in the loop controlled by the flag, the flag may only be set to a constant or
    accumulated with `|=`; a plain `changed = <expr>` there forgets that an earlier element changed and the
    iteration stops before the fixpoint is reached (the computed set is too small)."""
    n = 0
    for b in facts.in_crate(PA):
        if not any(b.module == m or b.module.startswith(m + "::") for m in modules):
            continue
        loops = cfg.natural_loops(b)
        if not loops:
            continue
        for flag, (ty, name) in enumerate(b.locals):
            if ty != "bool" or not name:
                continue
            defs = [d for d in b.defs(flag) if d[0] == "assign"]
            if len(defs) < 2:
                continue
            # loops controlled by the flag: a switch on (a copy of) the flag with an edge leaving the loop
            controlled = []
            for h, blocks, backs in loops:
                for d in blocks:
                    t = b.term(d)
                    if t[0] != "switch":
                        continue
                    term = operand_term(b, t[1])
                    while term[0] == "un" and term[1] == "Not":
                        term = term[2]
                    if term[0] in ("path", "local") and term[1] == flag and not (term[0] == "path" and term[2]):
                        if any(s not in blocks for s in b.succs(d)):
                            controlled.append((h, blocks))
            if not controlled:
                continue
            h, blocks = max(controlled, key=lambda x: len(x[1]))
            n += 1
            bad = []
            for kind, bi, si, rv in defs:
                if bi not in blocks:
                    continue
                if rv[0] == "use" and rv[1][0] == "k":
                    continue
                if rv[0] == "bin" and rv[1] == "BitOr":
                    ops = [operand_term(b, rv[2]), operand_term(b, rv[3])]
                    if any(o[0] in ("path", "local") and o[1] == flag for o in ops):
                        continue
                nested = [l for l in loops if bi in l[1] and l[1] < blocks]
                if nested:
                    bad.append(b.stmts(bi)[si][3])
            key = "%s|flag-%s" % (fn_key(b, facts), name)
            ctx.check(not bad, rule, key,
                      "the change flag `%s` of the fixpoint loop is only set to constants or accumulated with |= inside nested "
                      "loops" % name,
                      "the change flag `%s` is overwritten (not accumulated) inside a nested loop at line(s) %s: a change seen "
                      "for an earlier element is forgotten, the fixpoint iteration can stop early and the computed set is "
                      "incomplete" % (name, bad), where(b, bad[0] if bad else None))
    ctx.require_floor(rule, "fixpoint_loops", n, floor)


from .common import fn_key  # noqa: E402


WELLFORMEDNESS_MODULES = ("parol::analysis::left_recursion", "parol::analysis::productivity", "parol::analysis::reachability",
                          "parol::grammar::cfg")


def occurrence_counts(ctx, facts, rule):
    """R11.5 (added after seed C11-b; expected count zero) in the well-formedness analyses (nullability, left recursion, productivity,
    reachability) a *sequence* of symbols is never measured by the cardinality of a de-duplicating collection: a comparison
    `set.len() <op> seq.len()` between a HashSet/BTreeSet built in the same function and a Vec / slice / production length treats
    an alternative with a repeated symbol (`Margin: Blank Blank;`) as if it had fewer symbols.  (Elsewhere such a comparison is a
    legitimate duplicate check, hence the restriction to these modules.)"""
    from ..dataflow import operand_term
    n = 0
    nbodies = 0
    for b in facts.in_crate(PA):
        if not (b.module or "").startswith(WELLFORMEDNESS_MODULES):
            continue
        nbodies += 1
        for bi, si, p, rv, line, mac in b.assigns():
            if rv[0] != "bin" or rv[1] not in ("Eq", "Ne", "Lt", "Le", "Gt", "Ge"):
                continue
            kinds = []
            for o in (rv[2], rv[3]):
                t = operand_term(b, o)
                k = None
                if t[0] == "call" and (t[1].path or "").split("::")[-1] == "len":
                    st = t[1].self_ty or ""
                    k = "set" if ("HashSet" in st or "BTreeSet" in st) else "map" if "Map<" in st else "seq"
                    if k == "set":
                        # a set that is a field / parameter is a given collection, not a measurement of this sequence
                        from ..dataflow import raw_operand_place, single_def
                        rp = raw_operand_place(b, t[1].args[0]) if t[1].args else None
                        if not rp or len(rp) > 1 and any(isinstance(e, list) and e[0] == "f" for e in rp[1:]) or rp[0] <= b.nargs:
                            k = "given-set"
                kinds.append(k)
            if "set" in kinds and "seq" in kinds:
                n += 1
                ctx.bad(rule, "%s|set-cardinality-vs-sequence-length" % fn_key(b, facts),
                        "the number of elements of a de-duplicating set built here is compared with the length of a symbol sequence: "
                        "an alternative that repeats a symbol is measured too short (e.g. nullability of `Margin: Blank Blank;` is "
                        "missed and a left recursion hidden behind it goes undetected)", where(b, line))
    ctx.check(n == 0, rule, "well-formedness-analyses|no-set-cardinality-for-sequences",
              "no comparison of a locally built set's cardinality with a sequence length in %d bodies" % nbodies,
              "%d such comparison(s)" % n, nontrivial=False)
    ctx.require_floor(rule, "bodies_scanned", nbodies, 20)


def nullability_from_the_fixpoint(ctx, facts, rule="R11.6"):
    """R11.6 (added after seed C11-c) hidden left recursion is looked for behind *all* nullable non-terminals: in
    detect_left_recursive_non_terminals every membership test that decides whether the scan of a right-hand side continues
    behind a non-terminal (`contains` on a set of names) uses the result of Cfg::calculate_nullable_non_terminals - the fixpoint
    that also finds non-terminals that are nullable only indirectly (B: C; C: ;) - and not a set assembled locally."""
    from ..dataflow import operand_term
    D = "parol::analysis::left_recursion::detect_left_recursive_non_terminals"
    NUL = "parol::grammar::cfg::Cfg::calculate_nullable_non_terminals"
    b = facts.body(D)
    fam = facts.family(b)
    src = [c for c in b.calls() if c.path == NUL]
    n = 0
    bad = []
    for fb in fam:
        for c in fb.calls():
            nm = (c.path or "").split("::")[-1]
            st = c.self_ty or ""
            if nm != "contains" or not ("Set<" in st and "String" in st):
                continue
            # only the tests on a right-hand-side symbol matter: the looked-up name is the payload of a Symbol::N
            from ..dataflow import raw_operand_place
            ap = raw_operand_place(fb, c.args[1]) if len(c.args) > 1 else None
            if not ap or not any(isinstance(e, list) and e[0] == "d" and e[1] == "N" for e in ap[1:]):
                continue
            t = operand_term(fb, c.args[0])
            ok = t[0] == "call" and t[1].path == NUL
            if not ok and t[0] in ("path", "local"):
                # a named local / captured variable: its single definition
                from ..dataflow import single_def
                d = single_def(fb, t[1])
                ok = bool(d and d[0] == "call" and d[3].path == NUL)
            n += 1
            if not ok:
                bad.append(c.line)
    ctx.check(bool(src) and n >= 1 and not bad, rule, "detect_left_recursive_non_terminals|nullables-from-fixpoint",
              "the nullable test of the right-hand-side scan uses Cfg::calculate_nullable_non_terminals",
              "detect_left_recursive_non_terminals decides 'continue behind this non-terminal' with a set that is not the result of "
              "Cfg::calculate_nullable_non_terminals (lines %s): a non-terminal that is nullable only indirectly (B: C; C: ;) stops "
              "the scan, the left recursion `A: B A \"x\"` behind it is not reported" % (bad or "none found"), where(b))
