"""C16 Unmatched input is an error unless explicitly allowed.

R16.1 ScannerConfig::generate_build_information: the catch-all mapping is pushed exactly when
      `self.allow_unmatched == false` (control dependent on that branch and on no other state of self except the
      choice of the pattern), after the fold over the user terminals (lowest priority), with the index
      terminal_names.len()-1 (the name table's last entry "Error").
R16.2 totality of the catch-all: for each setting of auto_newline the pattern that is pushed, together with the
      unconditionally present built-in rules of that setting (the newline token when auto_newline is on), matches every
      single character.  Decided on the evaluated pattern constants with regex_syntax's default meaning of `.`.
R16.4 reader side: the per-state flags (allow_unmatched, auto_newline_off, auto_ws_off) of the grammar reader's
      scanner configurations are written only (a) on the configuration under construction while a `%scanner` block is
      converted, or (b) by a global directive on `scanner_configurations[INITIAL_STATE]` - a global %allow_unmatched
      must not open other scanner states.
R16.3 gap handling: the token type TokenBuffer::add gives to unmatched gap text is the constant INVALID_TOKEN and
      Token::is_skip_token treats exactly that constant (besides the built-in skip tokens) as skipped - allowed gaps are
      ignored by the parser but kept.
R16.5 = C14 R14.2 re-evaluated: every token is buffered behind the gap test, the gap test is the only condition of the gap
      token, the gap token carries input[gap.start..gap.end] ("kept in the parse tree").
"""
import json

from .. import cfg
from ..artefact import rx
from ..dataflow import operand_term, raw_operand_place, forward_derived, single_def
from ..facts import AnchorMissing
from .common import (PA, RT, where, short, classify_switch, transitive_control_deps, control_dependence_no_errors,
                     recv_fields, only_via_edge)

CRATES = ["parol.lib", "parol_runtime.lib"]

META = {
    "explanation": "Decides for every scanner state (all grammars): the catch-all error rule is present iff "
                   "allow_unmatched is off, has lowest priority, and its pattern (evaluated from the constants in the "
                   "generator) matches every single character that no unconditional built-in rule matches; gap tokens "
                   "are typed INVALID_TOKEN which the runtime classifies as skipped. scnr2's matching itself is trusted.",
    "assumptions": ["regex_syntax default flags: `.` matches any character except \\n; `(?s:.)` matches any character",
                    "scnr2 prefers the longest match and, at equal length, the rule declared first"],
}

GBI = "parol::generators::scanner_config::ScannerConfig::generate_build_information"
SC = "parol::generators::scanner_config::ScannerConfig"


def field_truth(body, a, s, k):
    """truth value of the bool field test `k` on the edge a->s"""
    vals = [v for v, t in body.switch_edges(a) if t == s]
    truth = any(v != 0 for v in vals)
    if k[3]:
        truth = not truth
    return truth


def check(ctx):
    facts = ctx.facts()
    b = facts.body(GBI)
    cd = control_dependence_no_errors(b)
    dom = cfg.Dom(b)
    err_name = "parol_runtime::lexer::ERROR_TOKEN"
    error_token = facts.const("parol_runtime::lexer::ERROR_TOKEN")
    newline_token = facts.const("parol_runtime::lexer::NEW_LINE_TOKEN")

    # pushes into terminal_mappings inside this function (not the closure of the fold)
    pushes = [c for c in b.calls() if (c.path or "").endswith("Vec::push") and "std::string::String, u16" in (c.self_ty or "")]
    if len(pushes) < 5:
        raise AnchorMissing("generate_build_information: expected >= 5 pushes into terminal_mappings, found %d" % len(pushes))
    folds = [c for c in b.calls() if (c.path or "").endswith("Iterator::fold")]
    if len(folds) != 1:
        raise AnchorMissing("generate_build_information: expected one fold over the ordered terminals")
    fold = folds[0]
    after = [c for c in pushes if dom.dominates(fold.bb, c.bb)]
    ctx.check(len(after) == 1, "R16.1", "catch-all|single-push-after-user-terminals",
              "exactly one mapping is pushed after the fold over the user terminals (lowest priority)",
              "%d mappings are pushed after the user terminals (expected exactly the catch-all)" % len(after), where(b))
    if not after:
        return
    ca = after[0]
    deps = transitive_control_deps(b, ca.bb, cd=cd)
    fields = []
    au = None
    for a, s, k in deps:
        if k and k[0] == "field" and k[2]:
            fields.append(k[2][-1])
            if k[2][-1] == "allow_unmatched":
                au = field_truth(b, a, s, k)
        elif k and k[0] != "qm":
            fields.append(k[0])
    ctx.check(au is False and set(fields) <= {"allow_unmatched"}, "R16.1", "catch-all|iff-not-allow_unmatched",
              "the catch-all push is control dependent exactly on `allow_unmatched == false`",
              "the catch-all error rule is controlled by %s (allow_unmatched edge: %s): a state without "
              "%%allow_unmatched could lose its error rule, or a state with it could get one" % (sorted(set(fields)), au),
              where(b, ca.line))
    # the tuple pushed: (pattern, index, None, name)
    tp = raw_operand_place(b, ca.args[1])
    d = single_def(b, tp[0]) if tp else None
    if not (d and d[0] == "assign" and d[3][0] == "agg" and d[3][1] == "tuple" and len(d[3][4]) == 4):
        raise AnchorMissing("catch-all push: cannot resolve the pushed tuple")
    pat_op, idx_op = d[3][4][0], d[3][4][1]
    it = operand_term(b, idx_op)
    # index = (terminal_names.len() - 1) as u16
    ok_idx = False
    t = it
    if t[0] in ("path", "local"):
        dd = single_def(b, t[1])
        if dd and dd[0] == "assign":
            t = operand_term(b, ["c", [t[1]]])
    def is_len_minus_one(t):
        if t[0] == "proj":
            t = t[1]
        if t[0] == "bin" and t[1].startswith("Sub") and t[3][0] == "const" and t[3][2] == 1:
            a = t[2]
            return a[0] == "len" or (a[0] == "call" and (a[1].path or "").endswith("::len"))
        return False
    ok_idx = is_len_minus_one(t)
    if not ok_idx and t[0] in ("path", "local"):
        for dd in b.defs(t[1]):
            if dd[0] == "assign" and is_len_minus_one(operand_term(b, ["c", [t[1]]])):
                ok_idx = True
    ctx.check(ok_idx, "R16.1", "catch-all|index-is-last-terminal-name",
              "the catch-all gets the index terminal_names.len() - 1",
              "the catch-all's token index is not the last entry of the terminal name table", where(b, ca.line))

    # ---------------------------------------------------------------- R16.2
    # candidate patterns: definitions of the pattern operand
    pl = raw_operand_place(b, pat_op)
    cands = []       # (pattern string, auto_newline truth or None)
    def pattern_of_def(dd):
        if dd[0] == "call":
            c = dd[3]
            n = (c.path or "").split("::")[-1]
            if n in ("to_owned", "to_string", "from", "into") and c.args and c.args[0][0] in ("c", "m", "k"):
                t = operand_term(b, c.args[0])
                if t[0] == "const" and isinstance(t[2], str):
                    return t[2], c.bb
            if n in ("format", "must_use"):
                # std::fmt::format(Arguments::new(template, args)): find the template in the same macro expansion
                line = c.line
                tpl = None
                argvals = []
                for bi, si, p, rv, l2, mac in b.assigns():
                    if l2 == line and rv[0] == "use" and rv[1][0] == "k":
                        if rv[1][1].startswith("&[u8;") and isinstance(rv[1][2], str):
                            tpl = rv[1][2]
                        elif rv[1][1] in ("&&str", "&str") and isinstance(rv[1][2], str) and "format" in mac:
                            argvals.append(rv[1][2])
                if tpl is None:
                    return None, c.bb
                parts = rx.decode_fmt_template(tpl)
                nargs = len([x for x in parts if x[0] == "arg"])
                if nargs != len(argvals):
                    return None, c.bb
                it_ = iter(argvals)
                return "".join(x[1] if x[0] == "lit" else next(it_) for x in parts), c.bb
        if dd[0] == "assign" and dd[3][0] == "use" and dd[3][1][0] in ("c", "m"):
            inner = raw_operand_place(b, dd[3][1])
            out = []
            for d2 in b.defs(inner[0]):
                out.append(pattern_of_def(d2))
            return out
        return None, dd[1]
    defs = [x for x in b.defs(pl[0]) if x[0] in ("assign", "call")]
    flat = []
    for dd in defs:
        r = pattern_of_def(dd)
        if isinstance(r, list):
            flat.extend(r)
        else:
            flat.append(r)
    for pat, bb in flat:
        an = None
        for a, s, k in transitive_control_deps(b, bb, cd=cd):
            if k and k[0] == "field" and k[2] and k[2][-1] == "auto_newline":
                an = field_truth(b, a, s, k)
        cands.append((pat, an))
    if not cands or any(p is None for p, _ in cands):
        ctx.bad("R16.2", "catch-all|pattern-unresolved", "cannot evaluate the pattern of the catch-all rule statically "
                "(candidates %s); fail closed" % cands, where(b, ca.line))
        return
    for setting in (True, False):
        pats = [p for p, an in cands if an is None or an == setting]
        key = "catch-all-total|auto_newline=%s" % ("on" if setting else "off")
        if len(pats) != 1:
            ctx.bad("R16.2", key, "expected one catch-all pattern for auto_newline=%s, found %s" % (setting, pats),
                    where(b, ca.line))
            continue
        try:
            cs = rx.single_char_set(pats[0])
            covered = cs
            extra = ""
            if setting:
                covered = covered.union(rx.single_char_set(newline_token))
                extra = " together with the newline rule %r" % newline_token
        except rx.Unsupported as e:
            ctx.bad("R16.2", key, "cannot analyse pattern %r: %s" % (pats[0], e), where(b, ca.line))
            continue
        ctx.check(covered.is_total(), "R16.2", key,
                  "the catch-all %r%s matches every single character" % (pats[0], extra),
                  "with auto_newline %s the catch-all %r%s does not match the character(s) %s: such input is never "
                  "matched by any rule, becomes a silently skipped gap and the parse succeeds although allow_unmatched is "
                  "off" % ("on" if setting else "off", pats[0], extra, sorted(covered.chars)), where(b, ca.line))

    r16_4(ctx, facts)
    # ---------------------------------------------------------------- R16.3
    add = facts.body("parol_runtime::lexer::token_buffer::TokenBuffer::add")
    inv = "parol_runtime::lexer::token::INVALID_TOKEN"
    uses = []
    for bb2 in facts.family(add):
        for bi, si, p, rv, line, mac in bb2.assigns():
            if '"%s"' % inv in json.dumps(rv):
                uses.append(line)
        for c in bb2.calls():
            if '"%s"' % inv in json.dumps(c.args):
                uses.append(c.line)
    ctx.check(bool(uses), "R16.3", "TokenBuffer::add|gap-token-type",
              "gap text is tokenised with the INVALID_TOKEN type", "TokenBuffer::add no longer types gap text with "
              "INVALID_TOKEN", where(add))
    isk = facts.body("parol_runtime::lexer::token::Token::is_skip_token")
    consts = set()
    for bi, si, p, rv, line, mac in isk.assigns():
        for o in ([rv[2], rv[3]] if rv[0] == "bin" else []):
            if o[0] == "k" and o[3]:
                consts.add(o[3].split("::")[-1])
    for blk in isk.blocks:
        t = blk["t"]
        if t[0] == "switch":
            pass
    ctx.check("INVALID_TOKEN" in consts or _switch_has(isk, facts.const("parol_runtime::lexer::token::INVALID_TOKEN")),
              "R16.3", "is_skip_token|invalid-token-is-skipped",
              "Token::is_skip_token classifies INVALID_TOKEN as skipped",
              "Token::is_skip_token no longer treats INVALID_TOKEN (gap text) as skipped: allowed gaps would reach the "
              "parser", where(isk))


def _switch_has(body, value):
    for blk in body.blocks:
        t = blk["t"]
        if t[0] == "switch" and any(v == value for v, _ in t[2]):
            return True
    return False


def r16_4(ctx, facts):
    from ..dataflow import raw_place
    PG_SC = "parol::parser::parol_grammar::ScannerConfig"
    FLAGS = ("allow_unmatched", "auto_newline_off", "auto_ws_off")
    n = 0
    for b in facts.in_crate(PA):
        if not b.module.startswith("parol::parser::parol_grammar"):
            continue
        for bi, si, p, rv, line, mac in b.assigns():
            if not (isinstance(p[-1], list) and p[-1][0] == "f" and p[-1][3] == PG_SC and p[-1][2] in FLAGS):
                continue
            if "derive" in b.mac or (b.impl_trait or "").endswith("Default") or (b.impl_trait or "").endswith("Clone"):
                continue
            n += 1
            rp = raw_place(b, p)
            root = rp[0]
            d = single_def(b, root)
            how = "other"
            if d and d[0] == "call" and d[3].names() & {"std::ops::IndexMut::index_mut"}:
                idx = d[3].args[1]
                recv = recv_fields(b, d[3])
                if idx[0] == "k" and (idx[3] or "").endswith("INITIAL_STATE") and idx[2] == 0 and "scanner_configurations" in recv \
                        and b.kind != "Closure":
                    how = "initial-state"
            elif b.kind != "Closure" and b.local_ty(root).startswith(PG_SC) and b.local_name(root):
                how = "config-under-construction"
            ctx.check(how != "other", "R16.4", "%s|writes-%s|%s" % (short(b.root_fn(facts).path), p[-1][2], how),
                      "%s is set on %s" % (p[-1][2], how),
                      "%s sets %s on a scanner configuration that is neither the one under construction nor "
                      "scanner_configurations[INITIAL_STATE]: a directive would change the matching rules of other scanner "
                      "states (e.g. a global %%allow_unmatched removing the error rule everywhere)"
                      % (short(b.path), p[-1][2]), where(b, line))
    ctx.require_floor("R16.4", "flag_writes", n, 6)
    # ---------------------------------------------------------------- R16.5 = C14's gap rules (added after seed C16-b)
    # "kept in the parse tree": with allow-unmatched the only carrier of unmatched text is the gap token of TokenBuffer::add
    from . import c14
    c14.gap_rules(ctx, facts, rule="R16.5")
    c14.same_k_for_iterator_and_stream(ctx, facts)      # R14.6: a trailing gap needs the positioned end-of-input token
