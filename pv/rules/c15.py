"""C15 Comment tokens end exactly at the first end delimiter - thin: the two *constant* comment patterns.

The general block-comment pattern is computed at run time from arbitrary delimiter strings by
ScannerConfig::format_block_comment; deciding that algorithm needs executing or symbolically interpreting it and is
NOT attempted.  What is constant in the source can be decided exactly:
R15.1 the line-comment template of generate_build_information, `<start>` + tail, denotes (for a start delimiter without
      line break)  <start> . [^\\n]* . (\\n)?  - "to the end of its line, including the line break".  Decided by DFA
      equivalence over the symbolic alphabet {start, \\n, \\r, other}.
R15.2 the dedicated pattern returned for the C-style delimiters /* */ denotes exactly  "/*" v  where the first occurrence
      of "*/" in v ends v.  Decided by DFA equivalence over {'/', '*', \\n, \\r, other}.
R15.3 the dedicated pattern is returned exactly when both delimiters equal the escaped C-style constants.
"""
from ..artefact import rx as rxmod
from ..artefact import rxdfa
from ..dataflow import operand_term
from ..facts import AnchorMissing
from .common import PA, where, short, classify_switch, str_consts

CRATES = ["parol.lib"]

META = {
    "explanation": "Decides, for the two comment patterns that are constants of the generator, whether the regular language "
                   "they denote is the documented one (regex -> NFA -> DFA, product with a specification automaton, exact "
                   "over a symbolic alphabet). The run-time computed pattern for arbitrary block-comment delimiters is NOT "
                   "decided by this family.",
    "assumptions": ["regex_syntax default flags: `.` = any character except \\n; the scanner takes the longest match"],
}

GBI = "parol::generators::scanner_config::ScannerConfig::generate_build_information"
FBC = "parol::generators::scanner_config::ScannerConfig::format_block_comment"
START = "\u00a7"      # stands for the (arbitrary, newline-free) start delimiter of a line comment


def check(ctx):
    facts = ctx.facts()
    g = facts.body(GBI)
    # ---------------------------------------------------------------- R15.1
    tpl = None
    for cl in facts.closures_of(g):
        for bi, si, p, rv, line, mac in cl.assigns():
            if rv[0] == "use" and rv[1][0] == "k" and rv[1][1].startswith("&[u8;") and isinstance(rv[1][2], str) \
                    and "format" in mac and "\\n" in rv[1][2].replace("\n", "\\n"):
                tpl = (rv[1][2], cl, line)
    if tpl is None:
        raise AnchorMissing("line-comment template not found in generate_build_information")
    parts = rxmod.decode_fmt_template(tpl[0])
    if [p[0] for p in parts] != ["arg", "lit"]:
        raise AnchorMissing("line-comment template has an unexpected shape: %s" % parts)
    pattern = START + parts[1][1]
    try:
        alpha = sorted(rxdfa.literals(rxdfa.parse(pattern)) | {"\n", "\r", START}) + [rxdfa.OTHER]
        eq, wit = rxdfa.equivalent(rxdfa.regex_dfa(pattern, alpha), rxdfa.line_spec(START), alpha)
    except rxdfa.Unsupported as e:
        ctx.bad("R15.1", "line-comment|template-unsupported", "cannot analyse the line-comment template %r: %s" % (parts[1][1], e),
                where(tpl[1], tpl[2]))
        eq = None
    if eq is not None:
        ctx.check(eq, "R15.1", "line-comment|runs-to-end-of-line-including-break",
                  "`<start>%s` denotes <start>[^\\n]*(\\n)?" % parts[1][1].replace("\n", "\\n").replace("\r", "\\r"),
                  "the line-comment pattern `<start>%s` does not denote 'from the start delimiter to the end of the line "
                  "including the line break'; a distinguishing text is <start>%s"
                  % (parts[1][1].replace("\n", "\\n").replace("\r", "\\r"), rxdfa.render([s for s in (wit or []) if s != START])),
                  where(tpl[1], tpl[2]))

    # ---------------------------------------------------------------- R15.2 / R15.3
    f = facts.body(FBC)
    consts = [s for s, l in str_consts(f)]
    ded = [s for s in consts if s.startswith("/\\*") and len(s) > 6]
    if len(ded) != 1:
        raise AnchorMissing("format_block_comment: dedicated C-style pattern not found (%s)" % ded)
    pat = ded[0]
    try:
        alpha = sorted(rxdfa.literals(rxdfa.parse(pat)) | {"\n", "\r"}) + [rxdfa.OTHER]
        eq, wit = rxdfa.equivalent(rxdfa.regex_dfa(pat, alpha), rxdfa.delimited_spec("/*", "*/"), alpha)
    except rxdfa.Unsupported as e:
        ctx.bad("R15.2", "c-style|pattern-unsupported", "cannot analyse %r: %s" % (pat, e), where(f))
        eq = None
    if eq is not None:
        if eq:
            ctx.ok("R15.2", "c-style|first-end-delimiter", "%r denotes \"/*\" up to the first \"*/\"" % pat, where(f))
        else:
            w = rxdfa.render(wit)
            ctx.bad("R15.2", "c-style|first-end-delimiter",
                    "the dedicated C-style block-comment pattern %r does not denote 'from /* to the first */': it and the "
                    "specification disagree on the text %s (the pattern matches past an end delimiter that is directly "
                    "followed by '/', e.g. `/* a *// b */` is scanned as one comment)" % (pat, w), where(f))
    cs = set(consts)
    ctx.check("/\\*" in cs and "\\*/" in cs, "R15.3", "c-style|dispatch-constants",
              "the dedicated pattern is selected by comparing with the escaped delimiters /\\* and \\*/",
              "format_block_comment no longer compares its arguments with the escaped C-style delimiters", where(f),
              nontrivial=False)
