"""C15 Comment tokens end exactly at the first end delimiter - thin: the two *constant* comment patterns.

The general block-comment pattern is computed at run time from arbitrary delimiter strings by
ScannerConfig::format_block_comment; deciding that algorithm needs executing or symbolically interpreting it and is
NOT attempted.  What is constant in the source can be decided exactly:
R15.1 the line-comment template of generate_build_information, `<start>` + tail, denotes (for a start delimiter without
      line break)  <start> . [^\\n]* . (\\n)?  - "to the end of its line, including the line break".  Decided by DFA
      equivalence over the symbolic alphabet {start, \\n, \\r, other}.
R15.2 the dedicated pattern returned for the C-style delimiters /* */ denotes exactly  "/*" v  where the first occurrence
      of "*/" in v ends v.  Decided by DFA equivalence over {'/', '*', \\n, \\r, other}.
R15.3 the dedicated pattern is returned exactly when both delimiters equal the escaped C-style constants.
"""
from ..artefact import rx as rxmod
from ..artefact import rxdfa
from ..dataflow import operand_term
from ..facts import AnchorMissing
from .common import PA, where, short, classify_switch, str_consts

CRATES = ["parol.lib"]

META = {
    "explanation": "Decides, for the two comment patterns that are constants of the generator, whether the regular language "
                   "they denote is the documented one (regex -> NFA -> DFA, product with a specification automaton, exact "
                   "over a symbolic alphabet). The run-time computed pattern for arbitrary block-comment delimiters is NOT "
                   "decided by this family.",
    "assumptions": ["regex_syntax default flags: `.` = any character except \\n; the scanner takes the longest match"],
}

GBI = "parol::generators::scanner_config::ScannerConfig::generate_build_information"
FBC = "parol::generators::scanner_config::ScannerConfig::format_block_comment"
START = "\u00a7"      # stands for the (arbitrary, newline-free) start delimiter of a line comment


def check(ctx):
    facts = ctx.facts()
    g = facts.body(GBI)
    # ---------------------------------------------------------------- R15.1
    tpl = None
    for cl in facts.closures_of(g):
        for bi, si, p, rv, line, mac in cl.assigns():
            if rv[0] == "use" and rv[1][0] == "k" and rv[1][1].startswith("&[u8;") and isinstance(rv[1][2], str) \
                    and "format" in mac and "\\n" in rv[1][2].replace("\n", "\\n"):
                tpl = (rv[1][2], cl, line)
    if tpl is None:
        if _split_line_comment_template(ctx, facts, g):
            tpl = "split"
        else:
            raise AnchorMissing("line-comment template not found in generate_build_information")
    if tpl == "split":
        return _rest(ctx, facts)
    parts = rxmod.decode_fmt_template(tpl[0])
    if [p[0] for p in parts] != ["arg", "lit"]:
        raise AnchorMissing("line-comment template has an unexpected shape: %s" % parts)
    pattern = START + parts[1][1]
    try:
        alpha = sorted(rxdfa.literals(rxdfa.parse(pattern)) | {"\n", "\r", START}) + [rxdfa.OTHER]
        eq, wit = rxdfa.equivalent(rxdfa.regex_dfa(pattern, alpha), rxdfa.line_spec(START), alpha)
    except rxdfa.Unsupported as e:
        ctx.bad("R15.1", "line-comment|template-unsupported", "cannot analyse the line-comment template %r: %s" % (parts[1][1], e),
                where(tpl[1], tpl[2]))
        eq = None
    if eq is not None:
        ctx.check(eq, "R15.1", "line-comment|runs-to-end-of-line-including-break",
                  "`<start>%s` denotes <start>[^\\n]*(\\n)?" % parts[1][1].replace("\n", "\\n").replace("\r", "\\r"),
                  "the line-comment pattern `<start>%s` does not denote 'from the start delimiter to the end of the line "
                  "including the line break'; a distinguishing text is <start>%s"
                  % (parts[1][1].replace("\n", "\\n").replace("\r", "\\r"), rxdfa.render([s for s in (wit or []) if s != START])),
                  where(tpl[1], tpl[2]))

    _rest(ctx, facts)


def _split_line_comment_template(ctx, facts, g):
    """R15.1, second form (added after seed C15-b): the per-delimiter template carries no line end and a second template adds
    it to the joined alternatives.  The assembled pattern for two delimiters must denote the union of the two single-delimiter
    languages: `a.*|b.*(end)?` attaches the line end to the last alternative only (alternation binds weakest)."""
    def templates(body):
        out = []
        for bi, si, p, rv, line, mac in body.assigns():
            if rv[0] == "use" and rv[1][0] == "k" and rv[1][1].startswith("&[u8;") and isinstance(rv[1][2], str) and "format" in mac:
                try:
                    out.append((rxmod.decode_fmt_template(rv[1][2]), body, line))
                except Exception:
                    pass
        return out
    item = [t for cl in facts.closures_of(g) for t in templates(cl) if [x[0] for x in t[0]] == ["arg", "lit"] and ("\n" not in t[0][1][1] and "\\n" not in t[0][1][1])
            and t[0][1][1].startswith(".")]
    outer = [t for t in templates(g) if [x[0] for x in t[0]] in (["arg", "lit"], ["lit", "arg", "lit"]) and ("\n" in t[0][-1][1] or "\\n" in t[0][-1][1])]
    joins = [c for c in g.calls() if (c.path or "").split("::")[-1] == "join"]
    if len(item) != 1 or len(outer) != 1 or not joins:
        return False
    lit1 = item[0][0][1][1]
    pre = outer[0][0][0][1] if outer[0][0][0][0] == "lit" else ""
    suf = outer[0][0][-1][1]
    A, B = START, "\u00b6"
    pattern = pre + A + lit1 + "|" + B + lit1 + suf
    spec = A + ".*(\r\n|\r|\n)?|" + B + ".*(\r\n|\r|\n)?"
    try:
        alpha = sorted(rxdfa.literals(rxdfa.parse(pattern)) | {"\n", "\r", A, B}) + [rxdfa.OTHER]
        eq, wit = rxdfa.equivalent(rxdfa.regex_dfa(pattern, alpha), rxdfa.regex_dfa(spec, alpha), alpha)
    except rxdfa.Unsupported as e:
        ctx.bad("R15.1", "line-comment|template-unsupported", "cannot analyse the assembled line-comment pattern %r: %s" % (pattern, e),
                where(outer[0][1], outer[0][2]))
        return True
    show = lambda x: x.replace("\n", "\\n").replace("\r", "\\r").replace(A, "<start1>").replace(B, "<start2>")
    ctx.check(eq, "R15.1", "line-comment|runs-to-end-of-line-including-break",
              "the assembled pattern %s denotes the union of the single-delimiter languages" % show(pattern),
              "the line-comment pattern is assembled as %s: the line end belongs to the last alternative only (alternation binds "
              "weakest), a comment in another style ends before its line break; a distinguishing text is %s"
              % (show(pattern), show(rxdfa.render(wit or []))), where(outer[0][1], outer[0][2]))
    return True


def _rest(ctx, facts):
    # ---------------------------------------------------------------- R15.2 / R15.3
    f = facts.body(FBC)
    consts = [s for s, l in str_consts(f)]
    ded = [s for s in consts if s.startswith("/\\*") and len(s) > 6]
    if len(ded) != 1:
        raise AnchorMissing("format_block_comment: dedicated C-style pattern not found (%s)" % ded)
    pat = ded[0]
    try:
        alpha = sorted(rxdfa.literals(rxdfa.parse(pat)) | {"\n", "\r"}) + [rxdfa.OTHER]
        eq, wit = rxdfa.equivalent(rxdfa.regex_dfa(pat, alpha), rxdfa.delimited_spec("/*", "*/"), alpha)
    except rxdfa.Unsupported as e:
        ctx.bad("R15.2", "c-style|pattern-unsupported", "cannot analyse %r: %s" % (pat, e), where(f))
        eq = None
    if eq is not None:
        if eq:
            ctx.ok("R15.2", "c-style|first-end-delimiter", "%r denotes \"/*\" up to the first \"*/\"" % pat, where(f))
        else:
            w = rxdfa.render(wit)
            ctx.bad("R15.2", "c-style|first-end-delimiter",
                    "the dedicated C-style block-comment pattern %r does not denote 'from /* to the first */': it and the "
                    "specification disagree on the text %s (the pattern matches past an end delimiter that is directly "
                    "followed by '/', e.g. `/* a *// b */` is scanned as one comment)" % (pat, w), where(f))
    cs = set(consts)
    ctx.check("/\\*" in cs and "\\*/" in cs, "R15.3", "c-style|dispatch-constants",
              "the dedicated pattern is selected by comparing with the escaped delimiters /\\* and \\*/",
              "format_block_comment no longer compares its arguments with the escaped C-style delimiters", where(f),
              nontrivial=False)
    block_comment_templates(ctx, facts)


# ------------------------------------------------------------------------------------------------------------------ R15.4
def _named_root(body, op, depth=12):
    """follow copies / borrows / tuple packing from an operand to the first user-named local"""
    from ..dataflow import single_def
    cur = op
    while depth > 0 and cur and cur[0] in ("c", "m"):
        depth -= 1
        place = cur[1]
        l = place[0]
        if body.local_name(l) and not [e for e in place[1:] if isinstance(e, list) and e[0] == "f"]:
            return l
        d = single_def(body, l)
        if not d or d[0] != "assign":
            return l if body.local_name(l) else None
        rv = d[3]
        fld = [e for e in place[1:] if isinstance(e, list) and e[0] == "f"]
        if rv[0] == "agg" and rv[1] == "tuple" and fld:
            cur = rv[4][fld[0][1]]
        elif rv[0] == "use":
            cur = rv[1]
        elif rv[0] in ("ref", "ptr", "cfd"):
            cur = ["c", rv[-1]]
        else:
            return None
    return None


_FACTS = [None]


def _string_table_role(body, local):
    """'atoms' for the Vec<String> obtained from splitting the end delimiter, 'class_safe' for the Vec<String> collected from
    mapping the bracket-safe conversion over it (identified by how the vector is built, not by its name)"""
    from ..dataflow import single_def
    ty = body.local_ty(local)
    if "Vec<std::string::String>" not in ty and "Vec<String>" not in ty:
        return None
    t = operand_term(body, ["c", [local]])
    hops = 0
    while hops < 8:
        hops += 1
        if t[0] == "proj":
            t = t[1]
            continue
        if t[0] == "call":
            nm = (t[1].path or "").split("::")[-1]
            if nm == "collect":
                return "class_safe"
            if nm in ("branch", "unwrap", "expect", "from_residual"):
                t = operand_term(body, t[1].args[0]) if t[1].args else ("unknown",)
                continue
            if nm in ("call", "call_mut", "call_once"):
                return "atoms"
        break
    return "atoms" if [x for x in body.defs(local)] else None


def _closure_role(body, local):
    """'class_safe_atom' for the closure that consults must_escape_in_bracketed_expression"""
    from ..dataflow import single_def
    facts = _FACTS[0]
    d = single_def(body, local)
    if facts is None or not d or d[0] != "assign" or d[3][0] != "agg" or d[3][1] != "closure":
        return None
    cb = facts.body_by_path_opt(d[3][2])
    if cb is None:
        return None
    if any((c.path or "").endswith("must_escape_in_bracketed_expression") for c in cb.calls()):
        return "class_safe_atom"
    return "other-closure"


def _sym_value(body, op, depth=40):
    """symbolic value of a string operand of format_block_comment:
    ('s',) | ('e',) | ('atom', i) | ('class', i) | ('cat', [...]) | ('atoms_prefix',) | ('class_i',) | ('unknown', why)"""
    from ..dataflow import single_def
    if depth <= 0 or not op or op[0] not in ("c", "m"):
        return ("unknown", "operand")
    place = op[1]
    l = place[0]
    name = body.local_name(l)
    flds = [e for e in place[1:] if isinstance(e, list) and e[0] == "f"]
    if l == 1 and not flds:
        return ("s",)           # first parameter: the start delimiter
    if l == 2 and not flds:
        return ("e",)           # second parameter: the end delimiter
    d = single_def(body, l)
    if d is None:
        return ("unknown", "no single definition of %s" % (name or l))
    if d[0] == "call":
        c = d[3]
        n = (c.path or "").split("::")[-1]
        if n == "index" and len(c.args) == 2:
            base = _named_root(body, c.args[0])
            bname = _string_table_role(body, base) if base is not None else None
            it = operand_term(body, c.args[1])
            if it[0] == "const" and isinstance(it[2], int) and bname in ("atoms", "class_safe"):
                return ("atom" if bname == "atoms" else "class", it[2])
            if bname == "class_safe":
                return ("class_i",)
            if bname == "atoms":
                return ("atoms_index",)
        if n in ("must_use", "format", "to_string", "clone", "deref", "borrow", "as_str", "as_ref") and c.args:
            if n == "format":
                # the Arguments value -> its template
                for line, pieces, roots, names, ops in _templates(body):
                    if line == c.line:
                        return ("cat", [("lit", p[1]) if p[0] == "lit" else _sym_value(body, ops[p[1]], depth - 1) for p in pieces])
                return ("unknown", "format without template")
            return _sym_value(body, c.args[0], depth - 1)
        if n in ("call", "call_mut", "call_once") and len(c.args) == 2:
            clo = _named_root(body, c.args[0])
            cname = _closure_role(body, clo) if clo is not None else None
            at = operand_term(body, c.args[1])
            inner = None
            rp = None
            from ..dataflow import raw_operand_place
            rp = raw_operand_place(body, c.args[1])
            dd = single_def(body, rp[0]) if rp else None
            if dd and dd[0] == "assign" and dd[3][0] == "agg" and dd[3][1] == "tuple" and dd[3][4]:
                inner = _sym_value(body, dd[3][4][0], depth - 1)
            if cname == "class_safe_atom" and inner and inner[0] == "atom":
                return ("class", inner[1])
            return ("unknown", "closure %s" % cname)
        if n == "join":
            return ("joined",)
        return ("unknown", "call %s" % n)
    rv = d[3]
    if rv[0] == "agg" and rv[1] == "tuple" and flds:
        return _sym_value(body, rv[4][flds[0][1]], depth - 1)
    if rv[0] == "use":
        return _sym_value(body, rv[1], depth - 1)
    if rv[0] in ("ref", "ptr", "cfd"):
        return _sym_value(body, ["c", rv[-1]], depth - 1)
    return ("unknown", rv[0])


def _templates(body):
    """fmt templates with the operand of every argument: [(line, pieces, roots, names, operands)]"""
    from ..dataflow import single_def, raw_operand_place
    from .common import fmt_templates
    out = []
    for c in body.calls():
        if (c.path or "") != "std::fmt::Arguments::new" or len(c.args) < 2:
            continue
        t = operand_term(body, c.args[0])
        if t[0] != "const" or not isinstance(t[2], str):
            continue
        try:
            pieces = rxmod.decode_fmt_template(t[2])
        except rxmod.Unsupported:
            continue
        rp = raw_operand_place(body, c.args[1])
        d = single_def(body, rp[0]) if rp else None
        ops = []
        if d and d[0] == "assign" and d[3][0] == "agg" and d[3][1] == "array":
            for o in d[3][4]:
                r2 = raw_operand_place(body, o)
                d2 = single_def(body, r2[0]) if r2 else None
                ops.append(d2[3].args[0] if d2 and d2[0] == "call" and d2[3].args else None)
        out.append((c.line, pieces, None, None, ops))
    return out


def _instantiate(sym, atoms):
    """regex text of a symbolic template value for concrete one-letter atoms"""
    k = sym[0]
    if k == "s":
        return START
    if k == "e":
        return "".join(atoms)
    if k in ("atom", "class"):
        return atoms[sym[1]]
    if k == "lit":
        return sym[1]
    if k == "cat":
        return "".join(_instantiate(x, atoms) for x in sym[1])
    raise rxdfa.Unsupported("symbolic value %s" % (sym,))


PARTITIONS = {1: [("x",)], 2: [("x", "x"), ("x", "y")],
              3: [("x", "x", "x"), ("x", "x", "y"), ("x", "y", "x"), ("y", "x", "x"), ("x", "y", "z")]}


def _decide(ctx, f, line, key, sym_or_text, n, what):
    for atoms in PARTITIONS[n]:
        try:
            pat = sym_or_text(atoms) if callable(sym_or_text) else _instantiate(sym_or_text, atoms)
            alpha = sorted(set(atoms) | {START, "\n"}) + [rxdfa.OTHER]
            eq, wit = rxdfa.equivalent(rxdfa.regex_dfa(pat, alpha), rxdfa.delimited_spec(START, "".join(atoms)), alpha)
        except rxdfa.Unsupported as e:
            ctx.bad("R15.4", "%s|%s|unsupported" % (key, "".join(atoms)), "cannot analyse the %s for end delimiter shape %s: %s"
                    % (what, "".join(atoms), e), where(f, line))
            continue
        shape = "".join(atoms)
        if eq:
            ctx.ok("R15.4", "%s|end=%s" % (key, shape), "for an end delimiter of the shape %r the %s `%s` denotes 'from the start "
                   "delimiter to the first end delimiter'" % (shape, what, pat.replace(START, "<start>")), where(f, line))
        else:
            w = rxdfa.render([s for s in (wit or [])]).replace(START, "<start>")
            ctx.bad("R15.4", "%s|end=%s" % (key, shape),
                    "for an end delimiter of the shape %r (letters stand for arbitrary distinct characters, e.g. %s) the %s `%s` does not "
                    "denote 'from the start delimiter to the first end delimiter': pattern and specification disagree on the text %s"
                    % (shape, {"xxy": "`-->`", "xxx": "`---`", "xyx": "`*/*`", "yxx": "`/**`"}.get(shape, "`" + shape + "`"), what,
                       pat.replace(START, "<start>"), w), where(f, line))


def block_comment_templates(ctx, facts):
    """R15.4 the *computed* block-comment pattern, decided schematically: format_block_comment assembles its result from constant
    templates whose holes are the start delimiter, the end delimiter, its atoms a_i and their bracket-safe forms c_i.  The holes
    are resolved by provenance (a_i = atoms[i], c_i = class_safe_atom(a_i), excluded = c0 c1, alternatives of the general branch:
    `[^c_0]`, `a_0 .. a_(i-1) [^c_i]` joined by `|`), the templates are instantiated for every equality pattern of up to three
    atoms over a symbolic alphabet, and each instance is compared (regex -> DFA, exact) with the specification automaton
    'start, then up to the first occurrence of the end delimiter'.  Atoms are taken as single ordinary characters; escaping of
    the delimiters themselves is not modelled."""
    f = facts.body(FBC)
    _FACTS[0] = facts
    tps = _templates(f)
    # ---- two-atom branch: templates that mention both a0/a1 (or c0/c1)
    two = []
    gen = {}
    for line, pieces, _r, _n, ops in tps:
        syms = [_sym_value(f, o) if o else ("unknown", "arg") for o in ops]
        kinds = {s[0] for s in syms}
        lits = "".join(p[1] for p in pieces if p[0] == "lit")
        if "s" in kinds and "e" in kinds or ("s" in kinds and ("atom" in kinds)):
            if "joined" in kinds:
                gen["outer"] = (line, pieces, syms)
            else:
                two.append((line, pieces, syms))
        elif kinds <= {"class", "class_i"} and lits == "[^]" and "class" in kinds:
            gen["first"] = (line, pieces, syms)
        elif "class_i" in kinds and lits == "[^]":
            gen["step"] = (line, pieces, syms)
    if len(two) != 2 or set(gen) != {"outer", "first", "step"}:
        raise AnchorMissing("format_block_comment: expected two templates of the two-atom branch and the three templates of the "
                            "general branch, found %d / %s" % (len(two), sorted(gen)))
    for line, pieces, syms in two:
        val = ("cat", [("lit", p[1]) if p[0] == "lit" else syms[p[1]] for p in pieces])
        unk = [s for s in syms if s[0] == "unknown"]
        if unk:
            raise AnchorMissing("format_block_comment: cannot resolve a hole of the template at line %d: %s" % (line, unk))
        # which equality pattern selects this template: control dependence on `a0 == a1`
        blk = [c.bb for c in f.calls() if (c.path or "") == "std::fmt::Arguments::new" and c.line == line][0]
        from .common import guards_on_all_paths
        sel = None
        for a, k, truth in guards_on_all_paths(f, blk):
            if k and k[0] == "call" and (k[1].path or "").split("::")[-1] in ("eq", "ne"):
                n0 = [_sym_value(f, o) for o in k[1].args]
                if sorted(n0) == [("atom", 0), ("atom", 1)]:
                    sel = truth if (k[1].path or "").endswith("eq") else not truth
        parts = [p for p in PARTITIONS[2] if sel is None or (p[0] == p[1]) == sel]
        for atoms in parts:
            _decide_one = lambda at, v=val: _instantiate(v, at)
            save = PARTITIONS[2]
            PARTITIONS[2] = [atoms]
            try:
                _decide(ctx, f, line, "two-atom-template@%s" % ("equal" if atoms[0] == atoms[1] else "distinct"), val, 2,
                        "template of the two-character branch")
            finally:
                PARTITIONS[2] = save
    # ---- general branch
    o_line, o_pieces, o_syms = gen["outer"]
    f_line, f_pieces, f_syms = gen["first"]
    s_line, s_pieces, s_syms = gen["step"]
    ok_first = f_syms == [("class", 0)]
    ok_step = [s[0] for s in s_syms] in (["joined", "class_i"], ["class_i", "joined"]) or \
        sorted(s[0] for s in s_syms) == ["class_i", "joined"]
    ctx.check(ok_first and ok_step, "R15.4", "general-branch|holes",
              "alternative 0 is [^c_0]; alternative i is <joined atoms prefix>[^c_i]",
              "the holes of the general branch's templates are not (c_0) and (prefix, c_i): %s / %s" % (f_syms, s_syms),
              where(f, s_line))

    def general(atoms):
        alts = ["[^%s]" % atoms[0]]
        for i in range(1, len(atoms)):
            pre = "".join(atoms[:i])
            t = "".join(p[1] if p[0] == "lit" else (pre if s_syms[p[1]][0] == "joined" else atoms[i]) for p in s_pieces)
            alts.append(t)
        joined = "|".join(alts)
        return "".join(p[1] if p[0] == "lit" else (START if o_syms[p[1]][0] == "s" else "".join(atoms) if o_syms[p[1]][0] == "e"
                                                    else joined) for p in o_pieces)
    for n in (1, 3):
        _decide(ctx, f, o_line, "general-template|%d-atoms" % n, general, n, "pattern assembled by the general branch")
