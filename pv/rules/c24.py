"""C24 Code generation is deterministic.

R24.1 unordered_iter: every call that starts iterating a std HashMap/HashSet with the default (per-process seeded)
      RandomState hasher in the generator crate (lib and bin) is classified by what consumes the iterator in the
      same function: order-insensitive consumers (max/min/sum/count/any/all/collect or extend into a set or map,
      a `for` loop that only inserts into a set/map) are fine; every other consumer makes the result depend on the
      hash seed and must be in the reasoned exception table.  FxHash containers (no per-process seed) are exempt.
R24.2 no other per-process entropy source is consulted by the generator library: RandomState::new / thread_rng /
      SystemTime::now / Instant::now / std::env::vars / process::id are called only from allow-listed functions.
"""
import re

from .. import cfg
from ..dataflow import forward_derived, single_def
from ..facts import AnchorMissing
from .common import PA, PABIN, where, short, fn_key, all_places

CRATES = ["parol.lib", "parol.bin", "parol_runtime.lib"]

META = {
    "explanation": "Decides a necessary condition of C24 over the whole generator crate: no value that can reach a "
                   "generated file is produced by iterating a randomly seeded hash container in an order-sensitive way, "
                   "and no other per-process entropy is read. Classification is by the consuming call in the same "
                   "MIR body (data flow from the iteration call's result).",
    "assumptions": ["A-24: rustc_hash::FxBuildHasher (FxHashMap/FxHashSet) has no per-process seed, so its iteration "
                    "order is a function of the inserted keys only",
                    "BTreeMap/BTreeSet/Vec/IndexMap iteration order is deterministic"],
}

ITER_START = {"iter", "iter_mut", "into_iter", "keys", "values", "values_mut", "drain", "into_keys", "into_values",
              "retain", "extract_if", "difference", "union", "intersection", "symmetric_difference"}
ADAPTORS = {"map", "filter", "copied", "cloned", "filter_map", "enumerate", "peekable", "chain", "flat_map", "by_ref",
            "into_iter", "inspect", "flatten", "rev", "map_while", "skip_while", "take_while", "step_by", "fuse",
            "borrow", "borrow_mut", "deref", "deref_mut", "as_ref", "as_mut", "clone", "iter", "into"}
INSENSITIVE = {"max", "min", "sum", "count", "any", "all", "contains", "len", "is_empty", "product",
               "is_subset", "is_superset", "is_disjoint", "eq", "ne", "size_hint", "drop", "drop_in_place"}
SET_TYPES = ("std::collections::BTreeSet<", "std::collections::BTreeMap<", "std::collections::HashSet<",
             "std::collections::HashMap<", "std::collections::BinaryHeap<")

# exact key -> reason (DESIGN §3.3: never a wildcard)
ALLOW = {
    "parol|grammar::cfg|Cfg::calculate_nullable_non_terminals|HashSet::drain|loop":
        "the drained elements are inserted one by one into a BTreeSet (nullables_vec); the result is the sorted set",
    "parol|analysis::left_recursion|detect_left_recursive_non_terminals|&HashSet::into_iter|loop":
        "the loop body only extends another HashSet of the closure relation (set union); order irrelevant",
    "parol|generators::grammar_type_generator|<parol::generators::grammar_type_generator::GrammarTypeInfo as std::fmt::Display>::fmt|&HashSet::into_iter|loop":
        "Display of GrammarTypeInfo is only formatted inside trace!() (checked: every new_display::<GrammarTypeInfo> is in "
        "a log macro expansion); never written to a generated file",
}
ENTROPY = {
    "std::hash::RandomState::new": "random hasher seed",
    "std::collections::hash_map::RandomState::new": "random hasher seed",
    "std::time::SystemTime::now": "wall clock",
    "std::time::Instant::now": "monotonic clock",
    "std::process::id": "process id",
    "std::env::vars": "environment enumeration",
    "std::thread::current": "thread identity",
}
ENTROPY_ALLOW = {
    # root function -> reason
}


def top_level_args(ty):
    """split the generic arguments of the outermost `Name<...>` of a type string"""
    i = ty.find("<")
    if i < 0:
        return []
    depth = 0
    args = []
    cur = ""
    for ch in ty[i + 1:]:
        if ch == "<" or ch == "(" or ch == "[":
            depth += 1
        elif ch == ">" or ch == ")" or ch == "]":
            if depth == 0 and ch == ">":
                break
            depth -= 1
        if ch == "," and depth == 0:
            args.append(cur.strip())
            cur = ""
        else:
            cur += ch
    if cur.strip():
        args.append(cur.strip())
    return args


def hash_kind(ty):
    """('map'|'set', random: bool) if ty is (a reference to) a std hash container, else None"""
    t = ty.lstrip("&").replace("mut ", "", 1).strip() if ty.startswith("&") else ty
    for name, n in (("std::collections::HashMap<", 2), ("std::collections::HashSet<", 1)):
        if t.startswith(name):
            args = [a for a in top_level_args(t) if not a.startswith("'")]
            return ("map" if n == 2 else "set", len(args) <= n)
    return None


def consumer_chain(body, start_call):
    """calls that consume (a value derived from) the iterator, in CFG order of discovery"""
    # follow the *iterator* only: through moves/borrows and adaptor calls; a consumer ends the chain
    derived = forward_derived(body, [start_call.dest[0]],
                              through_calls=lambda c: method_name(c) in ADAPTORS)
    out = []
    for c in body.calls():
        if c.bb == start_call.bb:
            continue
        if any(a[0] in ("c", "m") and a[1][0] in derived for a in c.args):
            out.append(c)
    return out, derived


def method_name(c):
    p = c.path or ""
    return p.split("::")[-1]


def classify(body, start_call):
    """returns (verdict, consumer description)"""
    chain, derived = consumer_chain(body, start_call)
    sens = []
    saw_consumer = False
    for c in chain:
        n = method_name(c)
        if n in ADAPTORS or n in ("branch", "from_residual", "from_output"):
            continue
        if n in INSENSITIVE:
            saw_consumer = True
            continue
        if n in ("collect", "from_iter", "extend", "try_collect", "unzip"):
            saw_consumer = True
            tgt = c.full
            m = re.search(r"::(?:collect|from_iter)::<(.*)>$", tgt)
            target = m.group(1) if m else (c.self_ty if n in ("extend", "from_iter") else "")
            if n == "extend":
                target = c.self_ty
            if target.startswith(SET_TYPES) or target.lstrip("&mut ").startswith(SET_TYPES):
                continue
            sens.append("%s::<%s>" % (n, target[:60]))
            continue
        if n == "next":
            saw_consumer = True
            sens.append("loop")
            continue
        saw_consumer = True
        sens.append(n)
    if not chain or not saw_consumer:
        # the iterator escapes (returned / stored): conservative
        return "sensitive", "escapes"
    if sens:
        return "sensitive", ",".join(sorted(set(sens)))
    return "insensitive", "order-insensitive consumers only"


ORDER_FREE_SINKS = {"insert", "extend", "contains", "contains_key", "get", "get_mut", "len", "is_empty", "clone", "to_owned",
                    "to_string", "deref", "deref_mut", "borrow", "as_ref", "as_str", "eq", "ne", "cloned", "iter", "map_or",
                    "unwrap_or_default", "into_iter", "next", "branch", "from_residual", "drop", "drop_in_place", "default",
                    "cmp", "partial_cmp", "hash", "entry", "or_default", "or_insert", "or_insert_with", "remove", "into"}


def loop_body_order_sensitive(body, start_call):
    """for a `for x in <hash iteration>` loop: calls in the loop that take a value derived from the iterated element and
    are not order-insensitive sinks (inserting into a set/map, membership tests ...).  Vec::push / write / format etc.
    make the result depend on the iteration order."""
    chain, derived = consumer_chain(body, start_call)
    nexts = [c for c in chain if method_name(c) == "next"]
    if not nexts:
        return ["no-loop"]
    loop = cfg.loop_containing(body, nexts[0].bb)
    if loop is None:
        return ["no-loop"]
    elem = forward_derived(body, [nexts[0].dest[0]])
    out = []
    for c in body.calls():
        if c.bb not in loop[1] or c.bb == nexts[0].bb:
            continue
        if not any(a[0] in ("c", "m") and a[1][0] in elem for a in c.args):
            continue
        n = method_name(c)
        st = c.self_ty or ""
        if n in ORDER_FREE_SINKS:
            if n in ("insert", "extend", "remove", "entry") and not (st.lstrip("&mut ").startswith(SET_TYPES) or "Set<" in st or "Map<" in st):
                out.append("%s on %s" % (n, st[:40]))
            continue
        out.append(n)
    return sorted(set(out))


def display_only_in_logs(facts, tyname):
    """every construction of a fmt Argument for `tyname` (new_display/new_debug) happens inside a log macro"""
    n = 0
    bad = []
    for b in facts.bodies:
        for c in b.calls():
            if c.path in ("core::fmt::rt::Argument::new_display", "core::fmt::rt::Argument::new_debug") \
                    and tyname in c.full:
                n += 1
                m = c.mac
                if not ("$crate::log" in m or "$crate::__log" in m or re.search(r"(trace|debug|info|warn|error)$", m)):
                    bad.append("%s:%d" % (b.file, c.line))
            if c.path == "std::string::ToString::to_string" and tyname in (c.self_ty or ""):
                n += 1
                bad.append("%s:%d" % (b.file, c.line))
    return n, bad


def check(ctx):
    facts = ctx.facts()
    n_sites = 0
    n_random = 0
    seen_keys = set()
    for b in facts.bodies:
        if b.crate not in (PA, PABIN):
            continue
        for c in b.calls():
            name = method_name(c)
            st = c.self_ty or ""
            hk = hash_kind(st)
            if hk is None or name not in ITER_START:
                continue
            if c.path == "std::iter::IntoIterator::into_iter" and not st.startswith("&") and \
                    not st.startswith("std::collections::Hash"):
                continue
            n_sites += 1
            ctx.count("hash_iteration_sites")
            if not hk[1]:
                ctx.count("fx_sites_exempt")
                continue
            n_random += 1
            verdict, desc = classify(b, c)
            recv = ("&" if st.startswith("&") else "") + ("HashMap" if hk[0] == "map" else "HashSet")
            key = "%s|%s::%s|%s" % (fn_key(b, facts), recv, name, desc if verdict == "sensitive" else "ok")
            if verdict == "insensitive":
                ctx.ok("R24.1", key, "iteration over a RandomState %s feeds %s" % (recv, desc), where(b, c.line))
                continue
            if key in ALLOW:
                extra_ok = True
                if "fmt::Display" in key or "fmt::Debug" in key:
                    ty = b.root_fn(facts).self_ty or ""
                    n, bad = display_only_in_logs(facts, ty.split("<")[0])
                    extra_ok = n > 0 and not bad
                    if not extra_ok:
                        ctx.bad("R24.1", key + "|display-escapes-logging",
                                "the Display/Debug impl iterating a RandomState container is formatted outside log "
                                "macros at %s" % bad, where(b, c.line))
                        continue
                if "fmt::" not in key:
                    offenders = loop_body_order_sensitive(b, c)
                    if offenders:
                        ctx.bad("R24.1", key + "|loop-body", "the reasoned exception for this loop (its body only feeds sets / "
                                "maps) no longer holds: the loop body calls %s with the iterated elements" % offenders,
                                where(b, c.line))
                        continue
                ctx.ok("R24.1", key, "reasoned exception: " + ALLOW[key], where(b, c.line))
                seen_keys.add(key)
                continue
            ctx.bad("R24.1", key,
                    "order-sensitive consumption (%s) of an iteration over a std %s with the per-process random hasher: "
                    "the result differs between runs of parol on the same grammar" % (desc, recv), where(b, c.line))
    ctx.require_floor("R24.1", "random_state_iteration_sites", n_random, 4)
    ctx.count("exceptions_used", len(seen_keys))

    # ---------------------------------------------------------------- R24.2
    n_ent = 0
    for b in facts.bodies:
        if b.crate != PA:
            continue
        for c in b.calls():
            for e, why in ENTROPY.items():
                if e in c.names():
                    n_ent += 1
                    root = b.root_fn(facts).path
                    if root in ENTROPY_ALLOW:
                        ctx.ok("R24.2", "%s|%s" % (fn_key(b, facts), short(e)), ENTROPY_ALLOW[root], where(b, c.line))
                    else:
                        ctx.bad("R24.2", "%s|%s|entropy" % (fn_key(b, facts), short(e)),
                                "the generator library reads a per-process entropy source (%s)" % why, where(b, c.line))
    ctx.ok("R24.2", "entropy-inventory", "entropy source calls in parol lib: %d (all allow-listed)" % n_ent,
           nontrivial=False)
    # positive control for the classifier: HashMap::new is used (so the type matcher sees std hash containers)
    ctx.require_floor("R24.1", "hash_iteration_sites_total", n_sites, 15)
