"""C14 Tokens and parse trees are lossless - thin: no token is dropped between stream and tree, positions are complete.

R14.1 LL: in the T arm the compared look-ahead token is added to the tree (guarded by nothing but trim_parse_tree) and
      pushed on the tree stack; handle_additional_tokens passes every element of take_skip_tokens() to add_token under
      the same single guard.  LR: Shift pushes the consumed token; handle_additional_tokens pushes every taken token
      under the single guard.
R14.2 TokenBuffer::add: on the edge `last_token_location < token.location.start` a token of type INVALID_TOKEN whose
      text is sliced with exactly those two bounds is pushed before the token; last_token_location is then set from
      token.location.end on every path.
R14.3 position completeness: every Location built for a token that covers input text sets all six position fields
      (start_line, start_column, end_line, end_column, start, end).
R14.5 position mapping: in TokenIter::token_from_match each LocationBuilder setter receives the scnr2 match component of the
      same meaning (start_line <- start_position.line, end_column <- end_position.column, start <- span.start, ...).
R14.6 TokenIter::new and the TokenStream value receive the same (clamped) k.
R14.4 the end-of-input tokens are located at input.len(): a trailing unmatched gap is only visible to TokenBuffer::add
      because EOI starts at the end of the input.
"""
import json

from .. import cfg
from ..dataflow import operand_term, raw_operand_place, raw_place, single_def, forward_derived, term_str
from ..facts import AnchorMissing
from .common import (RT, where, short, fn_key, classify_switch, transitive_control_deps, control_dependence_no_errors,
                     only_via_edge, recv_fields)
from . import ll

CRATES = ["parol_runtime.lib"]

META = {
    "explanation": "Decides structural clauses of C14: every token that reaches the parser is also put into the tree "
                   "(modulo the trim option), unmatched gaps become INVALID_TOKEN tokens with exactly the gap's text, EOI "
                   "sits at the end of the input, and token locations are built completely. Correctness of the numbers "
                   "delivered by scnr2 is assumed.",
}

LOC = "parol_runtime::lexer::location::Location"
POS_FIELDS = ["start_line", "start_column", "end_line", "end_column", "start", "end"]
ADD = "parol_runtime::lexer::token_buffer::TokenBuffer::add"
SYNTHETIC_LOCATIONS = {
    "parol_runtime::lexer::token_stream::TokenStream::insert_token_at":
        "token inserted by error recovery: covers no input text (the parse fails anyway once recovery was entered)",
}
NEXT_OWNER = "<parol_runtime::lexer::token_iter::TokenIter<'t, F> as std::iter::Iterator>::next"
LRP = "parol_runtime::lr_parser::parser_types::LRParser::"
PTS = "parol_runtime::parser_common::parse_tree_stack::ParseTreeStack::"


def only_trim_guard(body, blk, cd):
    kinds = []
    for a, s, k in transitive_control_deps(body, blk, cd=cd):
        if k is None or k[0] == "qm":
            continue
        if k[0] == "field" and k[2] and k[2][-1].endswith("trim_parse_tree"):
            kinds.append("trim")
        else:
            kinds.append(k[0])
    return kinds


def gap_rules(ctx, facts, rule="R14.2"):
    """R14.2 as a function (re-evaluated by C16 as R16.5)"""
    # ---------------------------------------------------------------- R14.2
    add = facts.body(ADD)
    dom = cfg.Dom(add)
    pushes = [c for c in add.calls() if (c.path or "").endswith("Vec::push") and "tokens" in recv_fields(add, c)]
    gate = None
    for d in range(len(add.blocks)):
        k = classify_switch(add, d)
        if k and k[0] == "bin" and k[1] in ("Lt", "Gt"):
            a, b2 = k[2], k[3]
            sa, sb = term_str(add, a), term_str(add, b2)
            if "last_token_location" in sa + sb and "start" in sa + sb:
                gate = (d, k)
    if gate is None and len(pushes) >= 2:
        # the gap token exists but is not decided by the offset comparison: name what decides it instead
        cdeps = control_dependence_no_errors(add)
        gp = [c for c in pushes if not ((raw_operand_place(add, c.args[1]) or [None])[0] == 2)]
        conds = []
        for c in gp:
            for a, s_, k in transitive_control_deps(add, c.bb, cd=cdeps):
                if k and k[0] in ("call", "disc-call"):
                    conds.append("%s at line %d" % ((k[1].path or "?").split("::")[-1], k[1].line))
                elif k:
                    conds.append("%s at line %d" % (k[0], add.line_of_block(a)))
        ctx.bad(rule, "TokenBuffer::add|gap-test-is-the-offset-comparison",
                "the gap token of TokenBuffer::add is not decided by the comparison `last_token_location < token.location.start` "
                "(conditions found: %s): every stretch of input between two tokens is unmatched text, whatever it contains - a test on "
                "the content of the gap (e.g. trim().is_empty()) drops whitespace-only gaps in states without whitespace rules from the "
                "token sequence and the tree" % (sorted(set(conds)) or "none"), where(add, gp[0].line if gp else None))
        return
    if gate is None or len(pushes) < 2:
        raise AnchorMissing("TokenBuffer::add: cannot find the gap test / the pushes of gap token and token")
    d, k = gate
    # pushes of the token that was handed in (parameter 2) vs. pushes of a token built here (the gap token)
    def pushes_param(c):
        rp = raw_operand_place(add, c.args[1]) if len(c.args) > 1 else None
        return bool(rp) and rp[0] == 2
    all_tok_push = [c for c in pushes if pushes_param(c)]
    # every way of buffering the token runs the gap detection first
    undetected = [c for c in all_tok_push if not dom.dominates(d, c.bb)]
    ctx.check(not undetected, rule, "TokenBuffer::add|gap-test-before-every-token-push",
              "every push of the token is dominated by the gap test",
              "the token is buffered at line(s) %s on a path that skips the gap test: unmatched text in front of such a token "
              "(e.g. before end of input) is dropped from the token sequence and the tree" % [c.line for c in undetected],
              where(add, undetected[0].line if undetected else None))
    pushes = [c for c in pushes if c not in undetected]
    if len(pushes) != 2:
        raise AnchorMissing("TokenBuffer::add: expected one gap push and one token push behind the gap test, found %d" % len(pushes))
    gap_push = [c for c in pushes if only_via_edge(add, d, {v for v, _t in add.switch_edges(d) if v != 0}, c.bb)]
    tok_push = [c for c in pushes if c not in gap_push]
    ok2 = len(gap_push) == 1 and len(tok_push) == 1 and tok_push[0].bb in cfg.reachable_from(add, gap_push[0].bb) \
        and gap_push[0].bb not in cfg.reachable_from(add, tok_push[0].bb)
    ctx.check(ok2, rule, "TokenBuffer::add|gap-before-token",
              "on the `last_token_location < start` edge the gap token is pushed before the token itself",
              "the gap token is not pushed (before the token) exactly when there is a gap", where(add))
    # the gap test is the *only* condition of the gap token (no "a token was seen before" side condition: unmatched text at the
    # very start of the input is a gap too)
    if gap_push:
        cdeps = control_dependence_no_errors(add)
        others = sorted({a for a, _s, _k in transitive_control_deps(add, gap_push[0].bb, cd=cdeps) if a != d})
        ctx.check(not others, rule, "TokenBuffer::add|gap-test-unconditional",
                  "the gap token depends on the comparison last_token_location < start alone",
                  "the gap token additionally depends on the branch(es) at line(s) %s: a gap that does not satisfy that side "
                  "condition (e.g. unmatched text before the first token) is dropped from the token sequence and the tree"
                  % [add.line_of_block(a) for a in others], where(add, gap_push[0].line))
    # the token itself is pushed on every path
    pd = cfg.PostDom(add)
    ctx.check(bool(tok_push) and pd.postdominates(tok_push[0].bb, 0), rule, "TokenBuffer::add|token-always-buffered",
              "the token is pushed on every path", "TokenBuffer::add can drop the token", where(add))
    # slice bounds of the gap text
    w = [c for c in add.calls() if c.path == "parol_runtime::lexer::token::Token::with"]
    slice_ok = False
    tt_ok = False
    if len(w) == 1:
        tt = operand_term(add, w[0].args[1])
        tt_ok = tt[0] == "const" and (tt[3] or "").endswith("INVALID_TOKEN")
        for c in add.calls():
            if (c.path or "").endswith("Index::index") and "str" in (c.self_ty or ""):
                r = raw_operand_place(add, c.args[1])
                dd = single_def(add, r[0]) if r else None
                if dd and dd[0] == "assign" and dd[3][0] == "agg" and dd[3][2] == "std::ops::Range":
                    # the *selected* field of each bound (the printed term of a struct literal mentions all its fields)
                    def last_field(t):
                        return t[2][-1] if t[0] in ("path", "proj") and t[2] else None
                    t0, t1 = operand_term(add, dd[3][4][0]), operand_term(add, dd[3][4][1])
                    slice_ok = last_field(t0) == "start" and last_field(t1) == "end" and \
                        (t0[1] == t1[1] if t0[0] == t1[0] else False)
    ctx.check(tt_ok and slice_ok, rule, "TokenBuffer::add|gap-token-text-and-type",
              "the gap token has type INVALID_TOKEN and the text input[gap.start..gap.end]",
              "the gap token is not (INVALID_TOKEN, input[gap.start..gap.end])", where(add))
    lw = [(bi, line) for bi, si, p, rv, line, mac in add.assigns()
          if isinstance(p[-1], list) and p[-1][0] == "f" and p[-1][2] == "last_token_location"]
    upd = False
    for bi, line in lw:
        st = [s for s in add.stmts(bi) if s[0] == "a" and isinstance(s[1][-1], list) and s[1][-1][2] == "last_token_location"]
        rvx = st[0][2] if st else None
        if rvx and rvx[0] == "agg" and rvx[3] == "Some" and rvx[4]:
            rvx = ["use", rvx[4][0]]          # Some(token.location.end): an Option-typed tracker is the same update
        src = raw_operand_place(add, rvx[1]) if rvx and rvx[0] == "use" else None
        if src and len(src) == 1:
            sd = single_def(add, src[0])
            if sd and sd[0] == "assign" and sd[3][0] == "agg" and sd[3][3] == "Some" and sd[3][4]:
                src = raw_operand_place(add, sd[3][4][0])
        names = [e[2] for e in src[1:] if isinstance(e, list) and e[0] == "f"] if src else []
        if names[-2:] == ["location", "end"] and pd.postdominates(bi, 0):
            upd = True
    ctx.check(upd, rule, "TokenBuffer::add|last-location-updated",
              "last_token_location := token.location.end on every path",
              "last_token_location is not updated from token.location.end on every path (gaps would be computed from a "
              "stale offset)", where(add))



def check(ctx):
    facts = ctx.facts()
    # ---------------------------------------------------------------- R14.1
    for owner, sink, label in ((ll.H_ADDITIONAL, ll.TC + "add_token", "ll"), (LRP + "handle_additional_tokens", PTS + "push", "lr")):
        root = facts.body(owner)
        fam = facts.family(root)
        hits = []
        for b in fam:
            cd = control_dependence_no_errors(b)
            for c in b.calls():
                if sink in c.names():
                    hits.append((b, c, only_trim_guard(b, c.bb, cd)))
        ok = len(hits) == 1 and set(hits[0][2]) <= {"trim"} and hits[0][0].kind == "Closure"
        ctx.check(ok, "R14.1", "%s|skip-tokens-into-tree" % label,
                  "every token of take_skip_tokens() is put into the tree, guarded by trim_parse_tree only",
                  "%s does not put every skipped token into the tree (guards: %s)" % (short(owner), [h[2] for h in hits]),
                  where(root))
        # the closure is applied to all elements: try_for_each / for_each over into_iter()/drain(..) of take_skip_tokens()
        its = [(c.path or "").split("::")[-1] for c in root.calls()]
        ctx.check(("try_for_each" in its or "for_each" in its) and not (set(its) & {"filter", "skip", "take", "filter_map", "step_by"}),
                  "R14.1", "%s|all-skip-tokens-visited" % label, "all elements are visited (no filter/skip/take)",
                  "%s filters the skipped tokens before handing them over (%s)" % (short(owner), its), where(root))
    pi = facts.body(ll.PARSE_INTO)
    cd = control_dependence_no_errors(pi)
    adds = [c for c in pi.calls() if (ll.TC + "add_token") in c.names()]
    la = pi.calls_to(ll.TS + "lookahead")
    okt = False
    if len(adds) == 1 and la:
        guards = only_trim_guard(pi, adds[0].bb, cd)
        der = forward_derived(pi, [la[0].dest[0]])
        a = adds[0].args[1]
        # besides trim: the arm conditions (match on stack top, token type equality)
        okt = a[0] in ("c", "m") and a[1][0] in der and "trim" in guards and set(guards) <= {"trim", "disc", "bin", "disc-call", "call"}
    ctx.check(okt, "R14.1", "ll|consumed-token-into-tree", "the matched look-ahead token is added to the tree in the T arm",
              "the LL T arm does not add the matched token to the parse tree", where(pi))

    gap_rules(ctx, facts)

    # ---------------------------------------------------------------- R14.3
    n_loc = 0
    for b in facts.in_crate(RT):
        if b.module.startswith("parol_runtime::lexer::location"):
            continue
        for bi, si, p, rv, line, mac in b.assigns():
            if rv[0] == "agg" and rv[2] == LOC and "derive" not in mac and "Default" not in (b.impl_trait or ""):
                # struct literal (possibly with ..Default::default()): which operands are *not* copied from a default
                n_loc += 1
                names = [f for f, _t in facts.adt_fields(LOC)]
                missing = []
                for fn_ in POS_FIELDS:
                    o = rv[4][names.index(fn_)]
                    rp = raw_operand_place(b, o) if o[0] in ("c", "m") else None
                    dd = single_def(b, rp[0]) if rp else None
                    from_default = bool(dd and dd[0] == "call" and "std::default::Default::default" in dd[3].names())
                    if from_default:
                        missing.append(fn_)
                key = "%s|location-literal" % fn_key(b, facts)
                ctx.check(not missing, "R14.3", key, "the Location literal sets all six position fields",
                          "a token Location is built with %s left at their defaults (0): line/column information of "
                          "this token does not match the text" % missing, where(b, line))
        # builder chains: LocationBuilder::build must be preceded by setters
        for c in b.calls():
            if c.path == "parol_runtime::lexer::location::LocationBuilder::build":
                n_loc += 1
                setters = set()
                t = operand_term(b, c.args[0])
                hops = 0
                while t[0] == "call" and hops < 12:
                    setters.add((t[1].path or "").split("::")[-1])
                    t = operand_term(b, t[1].args[0]) if t[1].args else ("unknown",)
                    hops += 1
                if b.root_fn(facts).path in SYNTHETIC_LOCATIONS:
                    ctx.ok("R14.3", "%s|location-builder-synthetic" % fn_key(b, facts),
                           SYNTHETIC_LOCATIONS[b.root_fn(facts).path], where(b, c.line), nontrivial=False)
                    continue
                is_eoi = b.path == NEXT_OWNER and not ({"start_line"} & setters)
                need = ["start", "end"] if is_eoi else POS_FIELDS
                missing = [f for f in need if f not in setters]
                ctx.check(not missing, "R14.3", "%s|location-builder%s" % (fn_key(b, facts), "-eoi" if is_eoi else ""),
                          "the LocationBuilder chain sets %s" % need,
                          "a token Location is built without setting %s" % missing, where(b, c.line))
    ctx.require_floor("R14.3", "location_constructions", n_loc, 3)

    # ---------------------------------------------------------------- R14.4
    nx = facts.body(NEXT_OWNER)
    eoi_ok = 0
    for c in nx.calls():
        n = (c.path or "")
        if n in ("parol_runtime::lexer::location::LocationBuilder::start", "parol_runtime::lexer::location::LocationBuilder::end"):
            t = operand_term(nx, c.args[1])
            s = term_str(nx, t)
            if t[0] == "call" and (t[1].path or "").endswith("str::len") and "input" in recv_fields(nx, t[1]):
                eoi_ok += 1
            elif "len" in s and "input" in s:
                eoi_ok += 1
            else:
                ctx.bad("R14.4", "TokenIter::next|eoi-%s-at-input-end" % n.split("::")[-1],
                        "the EOI token's %s offset is %s, not self.input.len(): trailing unmatched text is then not turned "
                        "into a gap token and disappears from tokens and tree" % (n.split("::")[-1], s), where(nx, c.line))
    ctx.check(eoi_ok == 2, "R14.4", "TokenIter::next|eoi-at-input-end", "EOI start and end are self.input.len()",
              "cannot establish that EOI is located at the end of the input (%d of 2 offsets)" % eoi_ok, where(nx))

    # ---------------------------------------------------------------- R14.5
    tfm = facts.body("parol_runtime::lexer::token_iter::TokenIter::token_from_match")
    WANT = {"start_line": ("start_position", "line"), "start_column": ("start_position", "column"),
            "end_line": ("end_position", "line"), "end_column": ("end_position", "column"),
            "start": ("span", "start"), "end": ("span", "end")}
    seen = {}
    for c in tfm.calls():
        p = c.path or ""
        if p.startswith("parol_runtime::lexer::location::LocationBuilder::") and p.split("::")[-1] in WANT:
            rp = raw_operand_place(tfm, c.args[1])
            names = tuple(e[2] for e in (rp or [0])[1:] if isinstance(e, list) and e[0] == "f")
            seen[p.split("::")[-1]] = names
    for setter, want in WANT.items():
        got = seen.get(setter, ())
        ctx.check(tuple(got[-2:]) == want, "R14.5", "token_from_match|%s" % setter,
                  "%s <- match.%s" % (setter, ".".join(want)),
                  "LocationBuilder::%s is fed from match.%s instead of match.%s: token positions do not match the text"
                  % (setter, ".".join(got), ".".join(want)), where(tfm))
    same_k_for_iterator_and_stream(ctx, facts)


def same_k_for_iterator_and_stream(ctx, facts):
    """R14.6 the token iterator is created with the lookahead size the stream itself uses: in TokenStream::new_with_skip_tokens the
    k handed to TokenIter::new and the k stored in the stream are the same (clamped) value.  TokenIter delivers k end-of-input
    tokens located at input.len() (R14.4); with the raw k = 0 of a grammar that needs no lookahead it delivers none, the fillers
    carry no position, and unmatched text at the very end of the input never becomes a gap token."""
    TS = "parol_runtime::lexer::token_stream::TokenStream"
    b = facts.body(TS + "::new_with_skip_tokens")
    it = [c for c in b.calls() if (c.path or "").endswith("token_iter::TokenIter::new")]
    if len(it) != 1:
        raise AnchorMissing("new_with_skip_tokens: expected one TokenIter::new call")
    kops = [a for a in it[0].args if a[0] in ("c", "m") and b.local_ty(a[1][0]) == "usize"]
    fields = [f for f, _t in facts.adt_fields(TS)]
    stream_k = None
    for bi, si, p, rv, line, mac in b.assigns():
        if rv[0] == "agg" and rv[2] == TS and "k" in fields and len(rv[4]) == len(fields):
            stream_k = rv[4][fields.index("k")]
    if not kops or stream_k is None:
        raise AnchorMissing("new_with_skip_tokens: cannot find the k of TokenIter::new / of the TokenStream value")
    def root(o):
        rp = raw_operand_place(b, o)
        return rp[0] if rp else None
    ok = stream_k[0] in ("c", "m") and root(kops[-1]) == root(stream_k)
    ctx.check(ok, "R14.6", "new_with_skip_tokens|iterator-and-stream-share-k",
              "TokenIter::new and the TokenStream value receive the same k",
              "TokenIter::new receives `%s` but the stream stores `%s`: for a grammar that needs no lookahead (k = 0) the iterator "
              "emits no end-of-input token located at the end of the input, so unmatched text behind the last token is lost from the "
              "token sequence and the parse tree (`S: \"a\" \"b\";` with %%allow_unmatched and the input `ab??`)"
              % (b.local_name(root(kops[-1])) or root(kops[-1]), b.local_name(root(stream_k)) or root(stream_k)), where(b, it[0].line))
