"""C29 Language-server diagnostics reflect the latest document version - necessary condition.

R29.1 spawn_closure_effects: for every closure handed to std::thread::spawn in parol-ls from which a
      PublishDiagnostics send is reachable: the closure must capture shared mutable document/version state
      (Arc<Mutex|RwLock|Atomic*>, or a channel back to the main loop) and every send reachable from it must be
      dominated by a read of that state.  A thread that owns only copies (version: i32, cloned DocumentState)
      cannot know that a newer version exists, so some interleaving publishes stale diagnostics last.
R29.2 who_may_publish: PublishDiagnostics notifications are built only in the notify_* helpers; those are called
      only from the document handlers and from the spawn closure (inventory, floor-checked).
R29.4 full-text sync: the change applied from a didChange is contentChanges.last() (or all entries in order).
R29.5 the per-document parse results always belong to the current text (wholesale reset in clear(); reset before / behind the
      parser call on every path of Server::analyze).
"""
import re

from ..callgraph import CallGraph
from ..dataflow import single_def
from ..facts import AnchorMissing
from .. import cfg
from .common import LS, where, short, fn_key, ok_blocks

CRATES = ["parol_ls.bin"]

META = {
    "explanation": "Decides a necessary condition of C29 over all schedules: a background thread that can publish "
                   "diagnostics must be able to observe the current document version. Evaluated on the captured "
                   "variable types of every thread::spawn closure and the call graph below it. The full property "
                   "(last published == final text's diagnostics) needs a model of the protocol and is not decided.",
}

SPAWN = {"std::thread::spawn", "std::thread::Builder::spawn", "std::thread::scope", "std::thread::Scope::spawn"}
SEND = "crossbeam_channel::channel::Sender::send"
SHARED_RE = re.compile(r"std::sync::Arc<\s*(std::sync::(Mutex|RwLock|atomic::Atomic\w+|nonpoison::\w+)|parking_lot::\w+)"
                       r"|std::sync::atomic::Atomic|std::sync::mpsc::(Sender|SyncSender)|crossbeam_channel::channel::Receiver")
NOTIFY = ["parol_ls::server::Server::notify_analysis_ok", "parol_ls::server::Server::notify_analysis_error",
          "parol_ls::server::Server::notify_resolved_conflicts"]


def check(ctx):
    facts = ctx.facts()
    cg = CallGraph(facts)
    spawns = []
    for b in facts.in_crate(LS):
        for c in b.calls():
            if c.names() & SPAWN:
                spawns.append((b, c))
    ctx.count("spawn_sites", len(spawns))
    publishing = 0
    for b, c in spawns:
        a = c.args[0] if c.args else None
        cl = None
        caps = []
        if a and a[0] in ("c", "m") and len(a[1]) == 1:
            d = single_def(b, a[1][0])
            if d and d[0] == "assign" and d[3][0] == "agg" and d[3][1] == "closure":
                cl = facts.body_by_path_opt(d[3][2])
                for o in d[3][4]:
                    if o[0] in ("c", "m"):
                        caps.append(b.local_ty(o[1][0]))
                    elif o[0] == "k":
                        caps.append(o[1])
        key = "%s|spawn-closure" % fn_key(b, facts)
        if cl is None:
            ctx.bad("R29.1", key + "|unresolved", "thread::spawn with a callee that is not a closure literal; cannot "
                    "establish what it captures", where(b, c.line))
            continue
        seen = cg.reach([cl], crates=[LS])
        sends = []
        for k, (tb, pk, info) in seen.items():
            for cc in tb.calls():
                if SEND in cc.names() and "lsp_server::Message" in cc.full:
                    sends.append((tb, cc))
        if not sends:
            ctx.ok("R29.1", key + "|no-publish", "spawned closure cannot reach a Sender<Message>::send", where(b, c.line))
            continue
        publishing += 1
        shared = [t for t in caps if SHARED_RE.search(t)]
        chain = cg.chain(seen, sends[0][0])
        if not shared:
            ctx.bad("R29.1", key + "|publish-without-currency-check",
                    "the background analysis thread can publish diagnostics (%s) but captures only owned copies %s - "
                    "no shared version/document state: it cannot tell that a newer version of the document exists, so "
                    "after change v1 (slow analysis) and change v2 the stale v1 diagnostics can be published last; the "
                    "main thread's own 'ok' for the same version can also overtake or be overtaken by it"
                    % (" -> ".join(short(x) for x in chain), [t.split("::")[-1][:40] for t in caps]),
                    where(b, c.line), {"captures": caps, "chain": chain})
            continue
        # shared state captured: every send must be dominated by a read of it (lock/load) in the closure
        reads = [cc for cc in cl.calls() if re.search(r"::(lock|read|load|try_lock|recv|try_recv)$", cc.path or "")]
        ctx.check(bool(reads), "R29.1", key + "|currency-read",
                  "the closure captures shared state %s and reads it (%s)" % (shared, [short(r.path) for r in reads]),
                  "the closure captures shared state %s but never reads it before publishing" % shared, where(cl))
    ctx.require_floor("R29.1", "spawn_sites", len(spawns), 1)
    ctx.require_floor("R29.1", "publishing_spawn_closures", publishing, 1)

    # ---------------------------------------------------------------- R29.2
    builders = []
    for b in facts.in_crate(LS):
        for c in b.calls():
            if c.path == "lsp_types::PublishDiagnosticsParams::new":
                builders.append((b, c))
    allowed = set(NOTIFY)
    for b, c in builders:
        root = b.root_fn(facts).path
        ctx.check(root in allowed, "R29.2", "%s|builds-publish" % fn_key(b, facts),
                  "PublishDiagnostics is built in a notify_* helper",
                  "PublishDiagnostics is built outside the notify_* helpers (%s): an unreviewed publish path" % short(root),
                  where(b, c.line))
    ctx.require_floor("R29.2", "publish_builders", len(builders), 3)
    callers = {}
    for n in NOTIFY:
        facts.body(n)
        for b, c in cg.callers_of(n, crates=[LS]):
            callers.setdefault(b.root_fn(facts).path, 0)
            callers[b.root_fn(facts).path] += 1
    exp = {"parol_ls::server::Server::handle_open_document", "parol_ls::server::Server::handle_change_document",
           "parol_ls::server::Server::check_grammar"}
    extra = set(callers) - exp
    ctx.check(not extra, "R29.2", "notify-callers",
              "notify_* helpers are called only from %s" % sorted(short(x) for x in callers),
              "notify_* helpers are also called from %s: a new place that publishes diagnostics (must be ordered with the "
              "document version)" % sorted(short(x) for x in extra), "crates/parol-ls/src/server.rs")

    # ---------------------------------------------------------------- R29.3
    # every didOpen / didChange that is handled successfully publishes diagnostics tagged with *its* version:
    # no path reaches Ok(()) without a notify_* call, and the version handed to notify_* is the notification's.
    for h in ("parol_ls::server::Server::handle_open_document", "parol_ls::server::Server::handle_change_document"):
        b = facts.body(h)
        nblocks = {c.bb for c in b.calls() if c.names() & set(NOTIFY)}
        if not nblocks:
            raise AnchorMissing("%s does not publish" % h)
        oks = ok_blocks(b)
        reach = cfg.reachable_from(b, 0, avoid_blocks=nblocks)
        silent = [(bi, line) for bi, rv, line in oks if bi in reach]
        ctx.check(not silent, "R29.3", "%s|every-success-path-publishes" % short(h).split("::")[-1],
                  "every path of %s to Ok(()) passes a notify_* call" % short(h).split("::")[-1],
                  "%s can return Ok(()) without publishing diagnostics (at line(s) %s): the last published diagnostics "
                  "then stay tagged with an older version of the document" % (short(h), [l for _b, l in silent]), where(b))
        # the published version derives from the notification parameters (field `version`)
        from ..dataflow import raw_operand_place
        for c in b.calls():
            if c.names() & set(NOTIFY):
                vi = 2 if c.path.endswith("notify_analysis_ok") else 3
                rp = raw_operand_place(b, c.args[vi]) if vi < len(c.args) else None
                names = [e[2] for e in rp[1:] if isinstance(e, list) and e[0] == "f"] if rp else []
                ctx.check("version" in names, "R29.3", "%s|%s-version-from-notification"
                          % (short(h).split("::")[-1], c.path.split("::")[-1]),
                          "the published version is the `version` field of the notification parameters",
                          "%s publishes a version that is not the notification's version field" % short(c.path),
                          where(b, c.line))
    r29_4(ctx, facts)
    parsed_data_is_current(ctx, facts)


def r29_4(ctx, facts):
    """R29.4 (added after seed C29-b) the server uses full-text synchronisation: every entry of `contentChanges` is a complete
    replacement text and the LSP defines the *last* entry as the document's resulting state.  In apply_changes the change
    handed to apply_change is `content_changes.last()`, or every change is applied in order by a forward loop over the slice;
    `first()`, an index, or a reversed / truncated iteration analyses a text the client has already replaced."""
    from .. import cfg
    from ..dataflow import operand_term
    AC = "parol_ls::server::Server::apply_changes"
    b = facts.body(AC)
    sites = [c for c in b.calls() if c.path == "parol_ls::server::Server::apply_change"]
    if not sites:
        raise AnchorMissing("apply_changes does not call apply_change")
    for c in sites:
        t = operand_term(b, c.args[2]) if len(c.args) > 2 else ("unknown",)
        chain = []
        hops = 0
        while hops < 8:
            if t[0] == "proj":
                t = t[1]
                continue
            if t[0] == "call":
                chain.append((t[1].path or "").split("::")[-1])
                t = operand_term(b, t[1].args[0]) if t[1].args else ("unknown",)
                hops += 1
                continue
            break
        from_param = t[0] == "path" and t[1] == 3
        ok = from_param and chain[:1] == ["last"]
        if not ok and from_param and "next" in chain:
            # loop form: iterator over the whole slice, forward
            ok = not ({"rev", "take", "skip", "step_by", "filter", "nth", "take_while", "skip_while"} & set(chain))
        ctx.check(ok, "R29.4", "apply_changes|last-content-change-wins",
                  "the applied change is content_changes.last() (or all changes in order)",
                  "apply_changes applies %s of the notification's contentChanges instead of the last one: with full-text sync "
                  "the last entry is the document's state, the diagnostics published for this version describe a text the "
                  "client has replaced" % (".".join(reversed(chain)) + "()" if chain else "an entry that is not derived from last()"),
                  where(b, c.line))


def parsed_data_is_current(ctx, facts, rule="R29.5"):
    """R29.5 / R30.6 (added after seeds C29-c and C30-c) the parse results kept per document always belong to the current text:
    (a) DocumentState::clear replaces `parsed_data` wholesale (assignment of a freshly constructed value) - a field-by-field
        reset forgets a field sooner or later, and positions of an older version then show up in the diagnostics of a newer one;
    (b) in Server::analyze the reset dominates the call of the parser, or every path from that call to a return - the error
        returns of `?` included - passes a wholesale reset / assignment of `parsed_data`: a failed parse must not leave the
        results of the previous text attached to the new text (hover then slices the new text with old ranges)."""
    from .. import cfg
    from .common import all_places
    DS = "parol_ls::document_state::DocumentState"
    clr = facts.body_by_path_opt(DS + "::clear")
    if clr is None:
        ctx.info(rule, "DocumentState::clear does not exist on this tree; only the reset discipline of Server::analyze is evaluated")
    if clr is not None:
        whole = []
        partial = []
        for bi, kind, p, line in all_places(clr):
            if kind != "w":
                continue
            flds = [e for e in p[1:] if isinstance(e, list) and e[0] == "f"]
            if flds and flds[-1][2] == "parsed_data" and flds[-1][3] == DS:
                whole.append(line)
            elif any(e[2] == "parsed_data" and e[3] == DS for e in flds):
                partial.append((flds[-1][2], line))
        for c in clr.calls():
            # in-place resets through &mut parsed_data.<field> (clear(), truncate ..)
            if c.args and c.args[0][0] in ("c", "m"):
                from ..dataflow import raw_operand_place
                rp = raw_operand_place(clr, c.args[0])
                flds = [e for e in (rp or [])[1:] if isinstance(e, list) and e[0] == "f"]
                if len(flds) >= 2 and any(e[2] == "parsed_data" and e[3] == DS for e in flds[:-1]):
                    partial.append((flds[-1][2], c.line))
        ctx.check(bool(whole) and not partial, rule, "DocumentState::clear|wholesale-reset",
                  "clear() assigns a fresh ParolLsGrammar to parsed_data",
                  "DocumentState::clear resets parsed_data field by field (%s)%s: a field that is not reset keeps entries of earlier "
                  "versions of the document, and diagnostics of the current version point at positions of an older text"
                  % (sorted({f for f, _l in partial}), "" if whole else " and never replaces it as a whole"), where(clr))
    an = facts.body("parol_ls::server::Server::analyze")
    parses = [c for c in an.calls() if (c.path or "").endswith("parol_ls_parser::parse")]
    if len(parses) != 1:
        raise AnchorMissing("Server::analyze: expected one call of the grammar parser, found %d" % len(parses))
    pc = parses[0]
    resets = {c.bb for c in an.calls() if c.path == DS + "::clear"}
    for bi, kind, p, line in all_places(an):
        flds = [e for e in p[1:] if isinstance(e, list) and e[0] == "f"]
        if kind == "w" and flds and flds[-1][2] == "parsed_data" and flds[-1][3] == DS:
            resets.add(bi)
    dom = cfg.Dom(an)
    ok = any(dom.dominates(r, pc.bb) and r != pc.bb for r in resets)
    if not ok:
        # every path from the parse call to a return passes a reset
        tc = an.term(pc.bb)
        succs = [x for x in an.succs(pc.bb)]
        reach = cfg.reachable_from(an, succs, avoid_blocks=resets)
        ok = bool(resets) and not (reach & set(an.return_blocks()))
    ctx.check(ok, rule, "Server::analyze|stale-parse-results-impossible",
              "parsed_data is reset before the parser runs (or on every path behind it)",
              "Server::analyze can return - e.g. through the `?` of a failed parse - with the parse results of the previous text "
              "still attached to the document whose text was replaced: hover / goto-definition then use ranges of the old text on "
              "the new one (str::split_at beyond the end panics and takes the server down)", where(an, pc.line))
