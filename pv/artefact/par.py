"""Reader, normaliser and bisimulation check for grammars written in parol's PAR syntax.

Only used on the two grammar descriptions checked into the repository (parol.par, parol_ls.par).
The reader is a hand-written recursive-descent parser for the PAR syntax; it is deliberately strict: anything it does
not understand raises ParError (the rule then fails closed)."""
import re


class ParError(Exception):
    pass


TOKEN_RE = re.compile(r"""
    (?P<ws>\s+)
  | (?P<lc>//[^\n]*)
  | (?P<bc>/\*.*?\*/)
  | (?P<pp>%%)
  | (?P<dir>%[a-z_]+)
  | (?P<dcolon>::)
  | (?P<la>\?=|\?!)
  | (?P<id>[a-zA-Z_][a-zA-Z0-9_]*)
  | (?P<str>"(?:\\.|[^"\\])*")
  | (?P<raw>'(?:\\.|[^'\\])*')
  | (?P<rx>/(?:\\.|[^/\\])*/)
  | (?P<p>[:;|()\[\]{}<>,^@=])
""", re.X | re.S)


def tokenize(text):
    out = []
    i = 0
    while i < len(text):
        m = TOKEN_RE.match(text, i)
        if not m:
            raise ParError("cannot tokenize at offset %d: %r" % (i, text[i:i + 20]))
        k = m.lastgroup
        if k not in ("ws", "lc", "bc"):
            out.append((k, m.group(k)))
        i = m.end()
    return out


REGEX_META = set("\\.+*?()|[]{}^$#&-~")


def escape_raw(s):
    """regex::escape as used by TerminalKind::Raw (unicode escapes \\u{..} are preserved)"""
    out = ""
    i = 0
    while i < len(s):
        m = re.match(r"\\u\{[0-9a-fA-F]+\}", s[i:])
        if m:
            out += m.group(0)
            i += len(m.group(0))
            continue
        c = s[i]
        out += ("\\" + c) if c in REGEX_META else c
        i += 1
    return out


class Grammar:
    def __init__(self):
        self.start = None
        self.decls = []        # (directive, args...)
        self.scanners = {}     # name -> [directives]
        self.initial = []      # directives of INITIAL
        self.prods = {}        # lhs -> [alternative]; alternative = [factor]
        self.order = []        # lhs in order of first definition
        self.terminals = []    # expanded regex in order of first occurrence


class Parser:
    def __init__(self, toks):
        self.t = toks
        self.i = 0

    def peek(self, k=0):
        return self.t[self.i + k] if self.i + k < len(self.t) else (None, None)

    def eat(self, kind=None, val=None):
        k, v = self.peek()
        if k is None or (kind and k != kind) or (val is not None and v != val):
            raise ParError("expected %s %r, found %s %r (token %d)" % (kind, val, k, v, self.i))
        self.i += 1
        return v

    def literal(self):
        k, v = self.peek()
        if k == "str":
            self.i += 1
            return ("legacy", v[1:-1])
        if k == "raw":
            self.i += 1
            return ("raw", v[1:-1])
        if k == "rx":
            self.i += 1
            return ("regex", v[1:-1])
        raise ParError("expected a token literal, found %s %r" % (k, v))

    def typename(self):
        n = self.eat("id")
        while self.peek()[0] == "dcolon":
            self.eat()
            n += "::" + self.eat("id")
        return n

    def idlist(self):
        out = [self.eat("id")]
        while self.peek() == ("p", ","):
            self.eat()
            out.append(self.eat("id"))
        return out

    def scanner_directive(self):
        d = self.eat("dir")
        if d == "%line_comment":
            return (d, expand(self.literal()))
        if d == "%block_comment":
            return (d, expand(self.literal()), expand(self.literal()))
        if d in ("%auto_newline_off", "%auto_ws_off", "%allow_unmatched"):
            return (d,)
        if d == "%skip":
            return (d, tuple(self.idlist()))
        if d == "%on":
            ids = tuple(self.idlist())
            a = self.eat("dir")
            if a in ("%enter", "%push"):
                return (d, ids, a, self.eat("id"))
            if a == "%pop":
                return (d, ids, a)
            raise ParError("bad %%on action %s" % a)
        raise ParError("unknown scanner directive %s" % d)

    def grammar(self):
        g = Grammar()
        self.eat("dir", "%start")
        g.start = self.eat("id")
        while self.peek()[0] == "dir":
            d = self.peek()[1]
            if d in ("%title", "%comment"):
                self.eat()
                g.decls.append((d, self.eat("str")))
            elif d == "%user_type":
                self.eat()
                a = self.eat("id")
                self.eat("p", "=")
                g.decls.append((d, a, self.typename()))
            elif d == "%nt_type":
                self.eat()
                a = self.eat("id")
                self.eat("p", "=")
                g.decls.append((d, a, self.typename()))
            elif d == "%t_type":
                self.eat()
                g.decls.append((d, self.typename()))
            elif d == "%grammar_type":
                self.eat()
                g.decls.append((d, self.eat("raw")))
            elif d == "%scanner":
                self.eat()
                n = self.eat("id")
                self.eat("p", "{")
                ds = []
                while self.peek() != ("p", "}"):
                    ds.append(self.scanner_directive())
                self.eat("p", "}")
                g.scanners[n] = ds
            else:
                g.initial.append(self.scanner_directive())
        self.eat("pp")
        while self.peek()[0] is not None:
            lhs = self.eat("id")
            self.eat("p", ":")
            alts = self.alternations(g)
            self.eat("p", ";")
            if lhs not in g.prods:
                g.prods[lhs] = []
                g.order.append(lhs)
            g.prods[lhs].extend(alts)
        return g

    def alternations(self, g):
        alts = [self.alternation(g)]
        while self.peek() == ("p", "|"):
            self.eat()
            alts.append(self.alternation(g))
        return alts

    def alternation(self, g):
        fs = []
        while True:
            k, v = self.peek()
            if k == "p" and v in (";", "|", ")", "]", "}"):
                break
            if k is None:
                raise ParError("unexpected end of input in alternation")
            fs.append(self.factor(g))
        return fs

    def astcontrol(self):
        k, v = self.peek()
        if (k, v) == ("p", "^"):
            self.eat()
            return
        if (k, v) == ("p", "@"):
            self.eat()
            self.eat("id")
            if self.peek() == ("p", ":") and self.peek(1)[0] == "id" and self._type_follows():
                self.eat()
                self.typename()
            return
        if (k, v) == ("p", ":") and self._type_follows():
            self.eat()
            self.typename()

    def _type_follows(self):
        # `Symbol : Type` inside a right-hand side; a production separator `Ident :` only occurs after `;`
        return self.peek(1)[0] == "id"

    def factor(self, g):
        k, v = self.peek()
        if (k, v) == ("p", "("):
            self.eat()
            a = self.alternations(g)
            self.eat("p", ")")
            return ("group", a)
        if (k, v) == ("p", "["):
            self.eat()
            a = self.alternations(g)
            self.eat("p", "]")
            return ("opt", a)
        if (k, v) == ("p", "{"):
            self.eat()
            a = self.alternations(g)
            self.eat("p", "}")
            return ("rep", a)
        if k == "id":
            self.eat()
            self.astcontrol()
            return ("nt", v)
        states = ("INITIAL",)
        if (k, v) == ("p", "<"):
            self.eat()
            states = tuple(self.idlist())
            self.eat("p", ">")
        lit = self.literal()
        la = None
        if self.peek()[0] == "la":
            op = self.eat()
            la = (op, expand(self.literal()))
        self.astcontrol()
        rx = expand(lit)
        key = (rx, la, states)
        if (rx, la) not in [(t[0], t[1]) for t in g.terminals]:
            g.terminals.append((rx, la, lit[0]))
        return ("t", rx, la, states)


def expand(lit):
    kind, text = lit
    return escape_raw(text) if kind == "raw" else text


def parse(text):
    return Parser(tokenize(text)).grammar()


# ------------------------------------------------------------------------------------------------ normalisation

def _nts_in(alts, acc):
    for alt in alts:
        for f in alt:
            if f[0] == "nt":
                acc.add(f[1])
            elif f[0] in ("group", "opt", "rep"):
                _nts_in(f[1], acc)
    return acc


def _subst(alts, name, repl):
    out = []
    for alt in alts:
        na = []
        for f in alt:
            if f[0] == "nt" and f[1] == name:
                na.extend(repl)
            elif f[0] in ("group", "opt", "rep"):
                na.append((f[0], _subst(f[1], name, repl)))
            else:
                na.append(f)
        out.append(na)
    return out


def _reach(prods, n, seen):
    for m in _nts_in(prods.get(n, []), set()):
        if m not in seen:
            seen.add(m)
            _reach(prods, m, seen)
    return seen


def _flatten(alts):
    """( X ) with a single alternative is spliced into its context"""
    out = []
    for alt in alts:
        na = []
        for f in alt:
            if f[0] in ("group", "opt", "rep"):
                inner = _flatten(f[1])
                if f[0] == "group" and len(inner) == 1:
                    na.extend(inner[0])
                else:
                    na.append((f[0], inner))
            else:
                na.append(f)
        out.append(na)
    return out


def normalise(g):
    """inline every non-start non-terminal that has exactly one alternative and is not recursive;
    returns dict lhs -> alternatives"""
    prods = {k: _flatten(v) for k, v in g.prods.items()}
    changed = True
    while changed:
        changed = False
        for n in list(prods):
            if n == g.start or len(prods[n]) != 1:
                continue
            if n in _reach(prods, n, set()):
                continue
            repl = prods[n][0]
            for m in prods:
                if m != n:
                    prods[m] = _flatten(_subst(prods[m], n, repl))
            del prods[n]
            changed = True
            break
    return prods


# ------------------------------------------------------------------------------------------------ bisimulation

def _sig_factor(f, cls):
    if f[0] == "t":
        return ("t", f[1], f[2], f[3])
    if f[0] == "nt":
        return ("nt", cls[f[1]])
    return (f[0], tuple(sorted(_sig_alt(a, cls) for a in f[1])))


def _sig_alt(alt, cls):
    return tuple(_sig_factor(f, cls) for f in alt)


def bisimilar(p1, s1, p2, s2):
    """partition refinement over the disjoint union of both grammars' non-terminals.
    Returns (equal: bool, classes, witness)"""
    nodes = [("1", n) for n in p1] + [("2", n) for n in p2]
    missing = []
    for tag, prods in (("1", p1), ("2", p2)):
        for n in prods:
            for m in _nts_in(prods[n], set()):
                if m not in prods:
                    missing.append((tag, n, m))
    if missing:
        return False, {}, "undefined non-terminals: %s" % missing[:5]
    cls = {n: 0 for n in nodes}
    while True:
        sigs = {}
        for tag, n in nodes:
            prods = p1 if tag == "1" else p2
            local = {m: cls[(tag, m)] for m in prods}
            sigs[(tag, n)] = (cls[(tag, n)], tuple(sorted(_sig_alt(a, local) for a in prods[n])))
        ids = {}
        new = {}
        for node in nodes:
            new[node] = ids.setdefault(sigs[node], len(ids))
        if len(ids) == len(set(cls.values())):
            cls = new
            break
        cls = new
    eq = cls[("1", s1)] == cls[("2", s2)]
    witness = None
    if not eq:
        a1 = sorted(str(_sig_alt(a, {m: cls[("1", m)] for m in p1})) for a in p1[s1])
        a2 = sorted(str(_sig_alt(a, {m: cls[("2", m)] for m in p2})) for a in p2[s2])
        witness = {"only_in_1": [a for a in a1 if a not in a2][:3], "only_in_2": [a for a in a2 if a not in a1][:3]}
    return eq, cls, witness


def unmatched_classes(p1, p2, cls):
    """non-terminals of one grammar whose class has no member in the other grammar"""
    c1 = {cls[("1", n)] for n in p1}
    c2 = {cls[("2", n)] for n in p2}
    return sorted(n for n in p1 if cls[("1", n)] not in c2), sorted(n for n in p2 if cls[("2", n)] not in c1)
