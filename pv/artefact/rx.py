"""Tiny analyser for *constant* regex patterns: which single characters does the pattern match as a whole match?

Semantics follow regex_syntax's defaults (what scnr2_generate uses): `.` matches any character except '\\n'
unless the `s` flag is set.  The result is a CharSet: either Finite(chars, classes) or CoFinite(excluded chars).
Only the constructs that occur in parol's built-in token constants are supported; anything else raises Unsupported
(the rule then fails closed)."""


class Unsupported(Exception):
    pass


class CharSet:
    def __init__(self, cofinite, chars):
        self.cofinite = cofinite      # True: everything except `chars`
        self.chars = frozenset(chars)

    def union(self, o):
        if self.cofinite and o.cofinite:
            return CharSet(True, self.chars & o.chars)
        if self.cofinite:
            return CharSet(True, self.chars - o.chars)
        if o.cofinite:
            return CharSet(True, o.chars - self.chars)
        return CharSet(False, self.chars | o.chars)

    def complement(self):
        return CharSet(not self.cofinite, self.chars)

    def is_total(self):
        return self.cofinite and not self.chars

    def __repr__(self):
        return ("ALL-%r" if self.cofinite else "%r") % sorted(self.chars)


EMPTY = CharSet(False, ())
ESC = {"n": "\n", "r": "\r", "t": "\t", "f": "\f", "v": "\v", "0": "\0"}
# members of the Perl classes we rely on (lower bounds; the classes are treated as exactly these for *finite* sets,
# which under-approximates what they match - sound for a totality claim)
CLASS = {"s": set("\n\r\t\f\v "), "d": set("0123456789"), "w": set("_abcxyzABCXYZ0129")}


class P:
    def __init__(self, s):
        self.s = s
        self.i = 0

    def peek(self):
        return self.s[self.i] if self.i < len(self.s) else None

    def eat(self, c=None):
        ch = self.peek()
        if ch is None or (c is not None and ch != c):
            raise Unsupported("expected %r at %d in %r" % (c, self.i, self.s))
        self.i += 1
        return ch


def single_char_set(pattern):
    """set of characters c such that the one-character string c is matched (completely) by pattern"""
    p = P(pattern)
    r = _alt(p, dotall=False)
    if p.peek() is not None:
        raise Unsupported("trailing input in %r" % pattern)
    return r


def _alt(p, dotall):
    r = _concat(p, dotall)
    while p.peek() == "|":
        p.eat("|")
        r = r.union(_concat(p, dotall))
    return r


def _concat(p, dotall):
    """a concatenation matches a single character only if it consists of exactly one single-char atom
    (optionally followed/preceded by atoms that can match the empty string - not supported)"""
    atoms = []
    while p.peek() is not None and p.peek() not in "|)":
        a = _atom(p, dotall)
        q = p.peek()
        if q in ("*", "?"):
            p.eat()
            atoms.append(("opt", a))
        elif q == "+":
            p.eat()
            atoms.append(("one", a))      # x+ matches the single char x
        elif q == "{":
            raise Unsupported("counted repetition")
        else:
            atoms.append(("one", a))
    mandatory = [a for k, a in atoms if k == "one"]
    optional = [a for k, a in atoms if k == "opt"]
    if len(mandatory) == 1:
        return mandatory[0]
    if len(mandatory) == 0:
        r = EMPTY
        for a in optional:
            r = r.union(a)
        return r
    return EMPTY       # needs at least two characters


def _atom(p, dotall):
    c = p.peek()
    if c == ".":
        p.eat()
        return CharSet(True, () if dotall else ("\n",))
    if c == "(":
        p.eat("(")
        d = dotall
        if p.peek() == "?":
            p.eat("?")
            flags = ""
            while p.peek() is not None and p.peek() not in ":)":
                flags += p.eat()
            neg = False
            for f in flags:
                if f == "-":
                    neg = True
                elif f == "s":
                    d = not neg
                elif f in "iumxUR":
                    if f in "R":
                        raise Unsupported("CRLF mode")
                else:
                    raise Unsupported("group flag %r" % f)
            if p.peek() == ")":
                raise Unsupported("inline flag setting")
            p.eat(":")
        r = _alt(p, d)
        p.eat(")")
        return r
    if c == "[":
        return _klass(p)
    if c == "\\":
        p.eat()
        e = p.eat()
        if e in ESC:
            return CharSet(False, (ESC[e],))
        if e in CLASS:
            return CharSet(False, CLASS[e])
        if e.lower() in CLASS and e.isupper():
            return CharSet(True, CLASS[e.lower()])
        if e in "bBAz":
            raise Unsupported("assertion")
        if e in "pPxuU":
            raise Unsupported("unicode escape")
        return CharSet(False, (e,))
    if c in "^$":
        raise Unsupported("anchor")
    p.eat()
    return CharSet(False, (c,))


def _klass(p):
    p.eat("[")
    neg = False
    if p.peek() == "^":
        p.eat()
        neg = True
    r = EMPTY
    first = True
    while True:
        c = p.peek()
        if c is None:
            raise Unsupported("unterminated class")
        if c == "]" and not first:
            p.eat()
            break
        first = False
        if c == "[":
            raise Unsupported("nested class")
        if c == "\\":
            p.eat()
            e = p.eat()
            if e in ESC:
                item = CharSet(False, (ESC[e],))
            elif e in CLASS:
                item = CharSet(False, CLASS[e])
            elif e.lower() in CLASS and e.isupper():
                item = CharSet(True, CLASS[e.lower()])
            else:
                item = CharSet(False, (e,))
        else:
            p.eat()
            if c == "-" and p.peek() == "-":
                raise Unsupported("class set operation")
            if c == "&" and p.peek() == "&":
                raise Unsupported("class set operation")
            item = CharSet(False, (c,))
            if p.peek() == "-" and p.s[p.i + 1:p.i + 2] not in ("]", ""):
                if p.s[p.i + 1:p.i + 2] == "-":
                    raise Unsupported("class set operation")
                p.eat("-")
                hi = p.eat()
                if hi == "\\":
                    hi = ESC.get(p.eat(), None)
                    if hi is None:
                        raise Unsupported("range end")
                if ord(hi) - ord(c) > 512:
                    raise Unsupported("large range")
                item = CharSet(False, [chr(x) for x in range(ord(c), ord(hi) + 1)])
        r = r.union(item)
    return r.complement() if neg else r


def decode_fmt_template(s):
    """pieces of a compressed core::fmt template as exported by factgen (one char per byte, Latin-1):
    [('lit', text) | ('arg', index)].
    Encoding (observed on the pinned nightly, confirmed against the sources of several templates): a byte n < 0x80 starts a
    literal of n bytes (0 terminates); 0xC0 is a placeholder with default formatting whose argument index is the previous
    index + 1; 0xC8 is followed by a little-endian u16 argument index.  Other opcodes (width / precision / flags / {:?})
    are not supported and raise Unsupported."""
    out = []
    i = 0
    cur = -1
    while i < len(s):
        n = ord(s[i])
        if n == 0xfffd:
            raise Unsupported("facts written by an old driver (lossy template)")
        if n == 0:
            break
        if n < 0x80:
            raw = s[i + 1:i + 1 + n]
            try:
                raw = raw.encode("latin-1").decode("utf-8")
            except (UnicodeDecodeError, UnicodeEncodeError):
                pass
            if out and out[-1][0] == "lit":
                out[-1] = ("lit", out[-1][1] + raw)        # long literals are split into chunks of 127 bytes
            else:
                out.append(("lit", raw))
            i += 1 + n
            continue
        if n == 0xC0:
            cur += 1
            out.append(("arg", cur))
            i += 1
            continue
        if n == 0xC8:
            cur = ord(s[i + 1]) | (ord(s[i + 2]) << 8)
            out.append(("arg", cur))
            i += 3
            continue
        raise Unsupported("template opcode 0x%02x" % n)
    return out
