"""Reader for the tables of checked-in generated parsers (text of *_parser.rs)."""
import re


class GenError(Exception):
    pass


def scanner_modes(src):
    """[(mode name, [(regex, lookahead or None, index)], [transition text])] from the scanner!{} block"""
    m = re.search(r"scanner!\s*\{", src)
    if not m:
        raise GenError("no scanner! block")
    i = m.end()
    depth = 1
    j = i
    while j < len(src) and depth:
        if src[j] == "{":
            depth += 1
        elif src[j] == "}":
            depth -= 1
        j += 1
    block = src[i:j]
    modes = []
    for mm in re.finditer(r"mode\s+(\w+)\s*\{(.*?)\n\s*\}", block, re.S):
        name, body = mm.group(1), mm.group(2)
        toks = []
        for tm in re.finditer(r'token\s+r(#*)"(.*?)"\1\s*(?:(followed by|not followed by)\s+r(#*)"(.*?)"\4\s*)?=>\s*(\d+);', body):
            la = (tm.group(3), tm.group(5)) if tm.group(3) else None
            toks.append((tm.group(2), la, int(tm.group(6))))
        trans = re.findall(r"on\s+(\d+)\s+(enter|push|pop)\s*(\w*)\s*;", body)
        modes.append((name, toks, trans))
    if not modes:
        raise GenError("no modes in scanner! block")
    return modes


def str_table(src, name):
    m = re.search(r"pub const %s: &\[&str; \d+\] = &\[(.*?)\];" % name, src, re.S)
    if not m:
        raise GenError("table %s not found" % name)
    return re.findall(r'"((?:\\.|[^"\\])*)"', re.sub(r"/\*.*?\*/", "", m.group(1)))


def first_chars(rx):
    """over-approximation of the set of first characters of strings matched by a regex, or None for 'anything'"""
    if not rx:
        return None
    c = rx[0]
    if c == "\\":
        if len(rx) < 2:
            return None
        e = rx[1]
        return {"n": {"\n"}, "r": {"\r"}, "t": {"\t"}}.get(e, None if e in "sSdDwWbBpP" else {e})
    if c == "[":
        j = rx.find("]", 2)
        body = rx[1:j]
        if body.startswith("^") or "\\" in body:
            return None
        out = set()
        k = 0
        while k < len(body):
            if k + 2 < len(body) and body[k + 1] == "-":
                out |= {chr(x) for x in range(ord(body[k]), ord(body[k + 2]) + 1)}
                k += 3
            else:
                out.add(body[k])
                k += 1
        return out
    if c in ".(":
        return None
    if len(rx) > 1 and rx[1] in "*?":
        return None
    return {c}


def is_literal(rx):
    """a pattern without operators (only literal / escaped literal characters)"""
    i = 0
    while i < len(rx):
        c = rx[i]
        if c == "\\":
            if i + 1 >= len(rx) or rx[i + 1] in "sSdDwWbBpPnrtux":
                return False
            i += 2
            continue
        if c in ".+*?()|[]{}^$":
            return False
        i += 1
    return True
