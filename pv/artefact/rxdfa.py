"""Exact language comparison for *constant* regular expressions over a symbolic alphabet.

Supported syntax (enough for parol's built-in comment patterns): literals, escapes, `.`, bracket classes (also
negated, with ranges and the escapes \\n \\r \\t), groups `(..)` `(?:..)`, alternation, `*` `+` `?`.
The alphabet is partitioned into the characters that occur literally in the patterns under comparison plus
'\\n', '\\r' and one symbol OTHER standing for every remaining character; `.` = everything except '\\n'."""

OTHER = "\u0000OTHER"


class Unsupported(Exception):
    pass


class Node:
    pass


def parse(rx):
    """-> AST: ('set', neg, frozenset(chars), dot) | ('cat', [..]) | ('alt', [..]) | ('star', x) | ('plus', x) | ('opt', x)
    | ('eps',)"""
    pos = [0]

    def peek():
        return rx[pos[0]] if pos[0] < len(rx) else None

    def eat():
        c = rx[pos[0]]
        pos[0] += 1
        return c

    ESC = {"n": "\n", "r": "\r", "t": "\t"}

    def alt():
        items = [cat()]
        while peek() == "|":
            eat()
            items.append(cat())
        return items[0] if len(items) == 1 else ("alt", items)

    def cat():
        items = []
        while peek() is not None and peek() not in "|)":
            a = atom()
            while peek() in ("*", "+", "?"):
                q = eat()
                a = ({"*": "star", "+": "plus", "?": "opt"}[q], a)
            items.append(a)
        if not items:
            return ("eps",)
        return items[0] if len(items) == 1 else ("cat", items)

    def atom():
        c = eat()
        if c == "(":
            if rx[pos[0]:pos[0] + 2] == "?:":
                pos[0] += 2
            elif peek() == "?":
                raise Unsupported("group flags")
            a = alt()
            if peek() != ")":
                raise Unsupported("unbalanced group")
            eat()
            return a
        if c == ".":
            return ("set", True, frozenset(["\n"]))
        if c == "[":
            neg = False
            if peek() == "^":
                eat()
                neg = True
            chars = set()
            first = True
            while True:
                d = peek()
                if d is None:
                    raise Unsupported("unterminated class")
                if d == "]" and not first:
                    eat()
                    break
                first = False
                eat()
                if d == "\\":
                    e = eat()
                    if e in "sSdDwWpPbB":
                        raise Unsupported("class escape \\%s" % e)
                    d = ESC.get(e, e)
                if peek() == "-" and rx[pos[0] + 1:pos[0] + 2] not in ("]", ""):
                    raise Unsupported("range in class")
                chars.add(d)
            return ("set", neg, frozenset(chars))
        if c == "\\":
            e = eat()
            if e in "sSdDwWpPbBAz":
                raise Unsupported("escape \\%s" % e)
            return ("set", False, frozenset([ESC.get(e, e)]))
        if c in "*+?{}^$":
            raise Unsupported("operator %r" % c)
        return ("set", False, frozenset([c]))

    ast = alt()
    if pos[0] != len(rx):
        raise Unsupported("trailing input at %d in %r" % (pos[0], rx))
    return ast


def literals(ast, acc=None):
    acc = set() if acc is None else acc
    if ast[0] == "set":
        acc |= set(ast[2])
    elif ast[0] in ("cat", "alt"):
        for x in ast[1]:
            literals(x, acc)
    elif ast[0] in ("star", "plus", "opt"):
        literals(ast[1], acc)
    return acc


class NFA:
    def __init__(self):
        self.n = 0
        self.eps = {}
        self.tr = {}

    def new(self):
        self.n += 1
        return self.n - 1

    def add_eps(self, a, b):
        self.eps.setdefault(a, set()).add(b)

    def add(self, a, syms, b):
        for s in syms:
            self.tr.setdefault((a, s), set()).add(b)


def build(ast, alphabet):
    nfa = NFA()

    def syms(node):
        neg, chars = node[1], node[2]
        if neg:
            return [a for a in alphabet if a not in chars]
        return [a for a in alphabet if a in chars]

    def go(node):
        k = node[0]
        s, e = nfa.new(), nfa.new()
        if k == "eps":
            nfa.add_eps(s, e)
        elif k == "set":
            nfa.add(s, syms(node), e)
        elif k == "cat":
            cur = s
            for x in node[1]:
                a, b = go(x)
                nfa.add_eps(cur, a)
                cur = b
            nfa.add_eps(cur, e)
        elif k == "alt":
            for x in node[1]:
                a, b = go(x)
                nfa.add_eps(s, a)
                nfa.add_eps(b, e)
        elif k in ("star", "plus", "opt"):
            a, b = go(node[1])
            nfa.add_eps(s, a)
            nfa.add_eps(b, e)
            if k in ("star", "opt"):
                nfa.add_eps(s, e)
            if k in ("star", "plus"):
                nfa.add_eps(b, a)
        return s, e

    s, e = go(ast)
    return nfa, s, e


def closure(nfa, states):
    out = set(states)
    stack = list(states)
    while stack:
        x = stack.pop()
        for y in nfa.eps.get(x, ()):
            if y not in out:
                out.add(y)
                stack.append(y)
    return frozenset(out)


class DFA:
    """deterministic automaton given by a step function"""

    def __init__(self, start, step, accepting):
        self.start, self.step, self.accepting = start, step, accepting


def regex_dfa(rx, alphabet):
    ast = parse(rx)
    nfa, s, e = build(ast, alphabet)
    start = closure(nfa, [s])

    def step(state, sym):
        nxt = set()
        for q in state:
            nxt |= nfa.tr.get((q, sym), set())
        return closure(nfa, nxt)
    return DFA(start, step, lambda st: e in st)


def equivalent(d1, d2, alphabet, limit=200000):
    """(True, None) or (False, witness string as list of symbols)"""
    seen = {(d1.start, d2.start): None}
    work = [(d1.start, d2.start)]
    n = 0
    while work:
        a, b = work.pop(0)
        n += 1
        if n > limit:
            raise Unsupported("state budget")
        if d1.accepting(a) != d2.accepting(b):
            w = []
            cur = (a, b)
            while seen[cur] is not None:
                prev, sym = seen[cur]
                w.append(sym)
                cur = prev
            return False, list(reversed(w))
        for sym in alphabet:
            na, nb = d1.step(a, sym), d2.step(b, sym)
            if (na, nb) not in seen:
                seen[(na, nb)] = ((a, b), sym)
                work.append((na, nb))
    return True, None


def delimited_spec(start, end):
    """DFA of  start . v  where the first occurrence of `end` in v ends exactly at the end of v"""
    def kmp_next(j, sym):
        # longest prefix of `end` that is a suffix of end[:j] + sym
        s = end[:j] + sym if sym != OTHER else None
        if s is None:
            return 0
        for k in range(min(len(end), len(s)), 0, -1):
            if s.endswith(end[:k]):
                return k
        return 0
    DEAD = ("dead",)

    def step(state, sym):
        if state == DEAD:
            return DEAD
        phase, j = state
        if phase == "s":
            if sym == start[j]:
                return ("s", j + 1) if j + 1 < len(start) else ("v", 0)
            return DEAD
        if phase == "done":
            return DEAD
        nj = kmp_next(j, sym)
        if nj == len(end):
            return ("done", 0)
        return ("v", nj)
    return DFA(("s", 0), step, lambda st: st != DEAD and st[0] == "done")


def line_spec(start):
    """DFA of  start . [^\\n]* . (\\n)?"""
    DEAD = ("dead",)

    def step(state, sym):
        if state == DEAD:
            return DEAD
        phase, j = state
        if phase == "s":
            if sym == start[j]:
                return ("s", j + 1) if j + 1 < len(start) else ("body", 0)
            return DEAD
        if phase == "body":
            return ("end", 0) if sym == "\n" else ("body", 0)
        return DEAD
    return DFA(("s", 0), step, lambda st: st != DEAD and st[0] in ("body", "end"))


def render(w):
    return "".join("<other>" if s == OTHER else repr(s)[1:-1] for s in w)
