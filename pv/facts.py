"""Fact loader: wraps the JSON-lines files written by the `factgen` rustc driver.

Everything here is *read only* over facts generated from /repo's current working tree.
"""
import json
import os
import re


class AnchorMissing(Exception):
    """An anchor (function, field, call site ...) named by a rule cannot be resolved."""


def _records(path):
    """parsed records of one fact file; a marshal side-car (same directory, written atomically) avoids
    re-parsing 28 MB of JSON on every check of an unchanged tree"""
    import marshal
    side = path + ".marshal"
    try:
        if os.path.getmtime(side) >= os.path.getmtime(path):
            with open(side, "rb") as fh:
                return marshal.load(fh)
    except (OSError, ValueError, EOFError, TypeError):
        pass
    recs = []
    with open(path) as fh:
        for line in fh:
            recs.append(json.loads(line))
    try:
        tmp = side + ".%d.tmp" % os.getpid()
        with open(tmp, "wb") as fh:
            marshal.dump(recs, fh)
        os.replace(tmp, side)
    except OSError:
        pass
    return recs


# ---------------------------------------------------------------- operands / places helpers

def op_place(op):
    """place of a copy/move operand, else None"""
    if op and op[0] in ("c", "m"):
        return op[1]
    return None


def op_const(op):
    """(ty, val, named, fnpath) of a constant operand, else None"""
    if op and op[0] == "k":
        return (op[1], op[2], op[3], op[4])
    return None


def place_local(p):
    return p[0]


def place_fields(p):
    """names of the Field projections of a place, in order"""
    return [e[2] for e in p[1:] if isinstance(e, list) and e[0] == "f"]


def place_is_local(p):
    return len(p) == 1


def place_str(body, p):
    s = "_%d" % p[0]
    nm = body.local_name(p[0])
    if nm:
        s = nm
    for e in p[1:]:
        if e == "*":
            s = "(*%s)" % s
        elif e[0] == "f":
            s += "." + e[2]
        elif e[0] == "i":
            s += "[_%d]" % e[1]
        elif e[0] == "d":
            s += " as %s" % e[1]
        elif e[0] == "c":
            s += "[%d]" % e[1]
        else:
            s += ".?"
    return s


class Call:
    __slots__ = ("bb", "callee", "args", "dest", "target", "unwind", "line", "mac", "body")

    def __init__(self, body, bb, term, blk):
        self.body = body
        self.bb = bb
        self.callee = term[1]
        self.args = term[2]
        if term[0] == "call":
            self.dest = term[3]
            self.target = term[4]
            self.unwind = term[5]
            self.line = term[6]
        else:  # tailcall
            self.dest = None
            self.target = None
            self.unwind = None
            self.line = blk.get("l", 0)
        self.mac = blk.get("m", "")

    @property
    def path(self):
        """declared callee path (trait method path for trait calls)"""
        return self.callee.get("p")

    @property
    def resolved(self):
        """resolved callee path (impl method) when resolution succeeded, else declared path"""
        return self.callee.get("r") or self.callee.get("p")

    @property
    def full(self):
        return self.callee.get("pa") or ""

    @property
    def self_ty(self):
        return self.callee.get("self") or ""

    def names(self):
        return {n for n in (self.callee.get("p"), self.callee.get("r")) if n}

    def __repr__(self):
        return "Call(bb%d %s @%d)" % (self.bb, self.full or self.path, self.line)


class Body:
    def __init__(self, d, crate):
        self.d = d
        self.crate = crate
        self.path = d["path"]
        self.dp = d["dp"]
        self.kind = d["kind"]
        self.file = d["file"]
        self.lo = d["lo"]
        self.hi = d["hi"]
        self.nargs = d["nargs"]
        self.locals = d["locals"]
        self.blocks = d["blocks"]
        self.parent = d.get("parent")
        self.mac = d.get("mac", "")
        self.vis = d.get("vis")
        self.self_ty = d.get("self_ty")
        self.impl_trait = d.get("impl_trait")
        self.trait_item = d.get("trait_item")
        self.in_trait = d.get("in_trait")
        self._succ = None
        self._pred = None
        self._calls = None
        self._defs = None

    # ---- identity
    @property
    def module(self):
        """path of the enclosing module (from the driver)"""
        return self.d.get("mod", "")

    @property
    def name(self):
        """short display name  Type::method / fn  (+ {closure#n})"""
        return self.path.split("::", 1)[-1] if "::" in self.path else self.path

    def root_fn(self, facts):
        """outermost non-closure ancestor"""
        b = self
        while b.kind == "Closure" and b.parent:
            pb = facts.body_by_path_opt(b.parent)
            if pb is None:
                break
            b = pb
        return b

    def local_name(self, i):
        return self.locals[i][1]

    def local_ty(self, i):
        return self.locals[i][0]

    def locals_named(self, name):
        return [i for i, (t, n) in enumerate(self.locals) if n == name]

    # ---- control flow (normal edges only; unwind edges are ignored on purpose)
    def term(self, b):
        return self.blocks[b]["t"]

    def is_cleanup(self, b):
        return bool(self.blocks[b].get("c"))

    def succs(self, b):
        if self._succ is None:
            self._succ = [self._succs_of(i) for i in range(len(self.blocks))]
        return self._succ[b]

    def _succs_of(self, b):
        t = self.blocks[b]["t"]
        k = t[0]
        if k == "goto":
            return [t[1]]
        if k == "switch":
            out = []
            for v, tgt in t[2]:
                if tgt not in out:
                    out.append(tgt)
            if t[3] not in out:
                out.append(t[3])
            return out
        if k == "call":
            return [t[4]] if t[4] is not None else []
        if k == "drop":
            return [t[2]]
        if k == "assert":
            return [t[4]]
        return []

    def preds(self, b):
        if self._pred is None:
            self._pred = [[] for _ in self.blocks]
            for i in range(len(self.blocks)):
                for s in self.succs(i):
                    self._pred[s].append(i)
        return self._pred[b]

    def switch_edges(self, b):
        """[(value|None(otherwise), target)] of a switch terminator"""
        t = self.blocks[b]["t"]
        if t[0] != "switch":
            return []
        return [(v, tgt) for v, tgt in t[2]] + [(None, t[3])]

    def return_blocks(self):
        return [i for i, blk in enumerate(self.blocks) if blk["t"][0] == "ret"]

    # ---- statements
    def stmts(self, b):
        return self.blocks[b]["s"]

    def assigns(self):
        """iterate (bb, idx, place, rvalue, line, mac) over all Assign statements"""
        for bi, blk in enumerate(self.blocks):
            for si, s in enumerate(blk["s"]):
                if s[0] == "a":
                    yield bi, si, s[1], s[2], s[3], s[4]

    def calls(self):
        if self._calls is None:
            self._calls = []
            for bi, blk in enumerate(self.blocks):
                t = blk["t"]
                if t[0] in ("call", "tailcall"):
                    self._calls.append(Call(self, bi, t, blk))
        return self._calls

    def call_at(self, b):
        t = self.blocks[b]["t"]
        if t[0] in ("call", "tailcall"):
            return Call(self, b, t, self.blocks[b])
        return None

    def calls_to(self, *names, suffix=None):
        out = []
        for c in self.calls():
            ns = c.names()
            if any(n in ns for n in names):
                out.append(c)
            elif suffix and any(n.endswith(suffix) for n in ns):
                out.append(c)
        return out

    # ---- definitions of locals
    def defs(self, local):
        """list of definitions of a *whole* local:
        ('assign', bb, idx, rvalue) | ('call', bb, Call) ; projections (field writes) are ('part', ...)"""
        if self._defs is None:
            self._defs = {}
            for bi, blk in enumerate(self.blocks):
                for si, s in enumerate(blk["s"]):
                    if s[0] == "a":
                        p = s[1]
                        if len(p) > 1 and p[1] == "*":
                            # a store through a pointer/reference does not (re)define the pointer local
                            continue
                        kind = "assign" if len(p) == 1 else "part"
                        self._defs.setdefault(p[0], []).append((kind, bi, si, s[2]))
                t = blk["t"]
                if t[0] == "call":
                    p = t[3]
                    if len(p) > 1 and p[1] == "*":
                        continue
                    kind = "call" if len(p) == 1 else "partcall"
                    self._defs.setdefault(p[0], []).append((kind, bi, None, Call(self, bi, t, blk)))
        return self._defs.get(local, [])

    def line_of_block(self, b):
        return self.blocks[b].get("l", 0)

    def loc(self, b=None):
        return "%s:%d" % (self.file, self.line_of_block(b) if b is not None else self.lo)


class Facts:
    """All fact files of one tree."""

    def __init__(self, factdir, crates=None):
        self.dir = factdir
        self.bodies = []
        self.by_path = {}
        self.by_dp = {}
        self.adts = {}
        self.consts = {}
        self.crates = {}
        self.children = {}
        files = sorted(f for f in os.listdir(factdir) if f.endswith(".jsonl"))
        if crates is not None:
            absent = [c for c in crates if c + ".jsonl" not in files]
            if absent:
                raise RuntimeError("no facts for %s on this tree (the crate failed to build; see the fact "
                                   "generation log)" % absent)
        for f in files:
            cname = f[: -len(".jsonl")]
            if crates is not None and cname not in crates:
                continue
            nb = 0
            complete = False
            for d in _records(os.path.join(factdir, f)):
                if True:
                    t = d["t"]
                    if t == "body":
                        b = Body(d, cname)
                        self.bodies.append(b)
                        self.by_path.setdefault(b.path, []).append(b)
                        self.by_dp[cname + "|" + b.dp] = b
                        if b.parent:
                            self.children.setdefault(b.parent, []).append(b)
                        nb += 1
                    elif t == "adt":
                        self.adts[d["path"]] = d
                    elif t == "const":
                        self.consts[d["path"]] = d
                    elif t == "end":
                        complete = True
            if not complete:
                raise AnchorMissing("fact file %s is truncated" % f)
            self.crates[cname] = nb
        self._canonicalise(factdir)

    def _canonicalise(self, factdir):
        """One item, one name: other crates see workspace items through re-exports (`parol_runtime::LLKParser::..`),
        the defining crate through the real module path.  Callee names, named constants and fn items carry the
        verbose def path from the driver; map them to the defining crate's pretty path (read from *all* fact files
        of the tree, also those not loaded for this property)."""
        import marshal
        side = os.path.join(factdir, "dp2path.marshal")
        dp2path = None
        try:
            with open(side, "rb") as fh:
                dp2path = marshal.load(fh)
        except (OSError, ValueError, EOFError, TypeError):
            dp2path = None
        if dp2path is None:
            dp2path = {}
            for f in sorted(os.listdir(factdir)):
                if not f.endswith(".jsonl"):
                    continue
                for d in _records(os.path.join(factdir, f)):
                    if d["t"] in ("body", "const") and "dp" in d:
                        dp2path.setdefault(d["dp"], d["path"])
            try:
                tmp = side + ".%d.tmp" % os.getpid()
                with open(tmp, "wb") as fh:
                    marshal.dump(dp2path, fh)
                os.replace(tmp, side)
            except OSError:
                pass
        self.dp2path = dp2path

        def canon_named(x):
            if isinstance(x, str) and "|" in x:
                vis, dp = x.rsplit("|", 1)
                return dp2path.get(dp, vis)
            return x

        def fix_op(o):
            if o and o[0] == "k":
                if o[3]:
                    o[3] = canon_named(o[3])
                if o[4]:
                    o[4] = canon_named(o[4])

        def fix_rv(rv):
            k = rv[0]
            if k in ("use", "rep"):
                fix_op(rv[1])
            elif k == "cast":
                fix_op(rv[2])
            elif k == "bin":
                fix_op(rv[2])
                fix_op(rv[3])
            elif k == "un":
                fix_op(rv[2])
            elif k == "agg":
                for o in rv[4]:
                    fix_op(o)

        for b in self.bodies:
            if b.d.get("_canon"):
                continue
            b.d["_canon"] = True
            for blk in b.blocks:
                for s in blk["s"]:
                    if s[0] == "a":
                        fix_rv(s[2])
                t = blk["t"]
                if t[0] in ("call", "tailcall"):
                    cal = t[1]
                    dk = cal.get("dk")
                    if dk and dk in dp2path:
                        cal["p"] = dp2path[dk]
                    rdk = cal.get("rdk")
                    if rdk and rdk in dp2path:
                        cal["r"] = dp2path[rdk]
                    for o in t[2]:
                        fix_op(o)
                elif t[0] in ("switch", "assert"):
                    fix_op(t[1])

    # ---- lookup
    def body(self, path, crate=None):
        bs = self.by_path.get(path, [])
        if crate:
            bs = [b for b in bs if b.crate == crate]
        if not bs:
            raise AnchorMissing("function %s not found in facts" % path)
        if len(bs) > 1:
            # same pretty path in lib and bin of one package etc.: prefer lib
            libs = [b for b in bs if b.crate.endswith(".lib")]
            if len(libs) == 1:
                return libs[0]
            raise AnchorMissing("function %s is ambiguous (%d bodies)" % (path, len(bs)))
        return bs[0]

    def body_by_path_opt(self, path):
        bs = self.by_path.get(path, [])
        return bs[0] if bs else None

    def bodies_matching(self, regex, crate=None):
        r = re.compile(regex)
        return [b for b in self.bodies if r.search(b.path) and (crate is None or b.crate == crate)]

    def closures_of(self, body, recursive=True):
        out = []
        for c in self.children.get(body.path, []):
            if c.crate != body.crate:
                continue
            out.append(c)
            if recursive:
                out.extend(self.closures_of(c, True))
        return out

    def family(self, body):
        """a function together with all closures nested in it"""
        return [body] + self.closures_of(body)

    def const(self, path):
        c = self.consts.get(path)
        if c is None:
            raise AnchorMissing("constant %s not found in facts" % path)
        return c["val"]

    def adt(self, path):
        a = self.adts.get(path)
        if a is None:
            raise AnchorMissing("type %s not found in facts" % path)
        return a

    def adt_fields(self, path, variant=None):
        a = self.adt(path)
        vs = a["variants"]
        if variant is not None:
            vs = [v for v in vs if v["name"] == variant]
            if not vs:
                raise AnchorMissing("variant %s::%s not found" % (path, variant))
        return [(f[0], f[1]) for f in vs[0]["fields"]]

    def in_crate(self, crate):
        return [b for b in self.bodies if b.crate == crate]
