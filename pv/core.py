"""Check runner: obligations, violations, known findings, evidence, replay."""
import hashlib
import importlib
import json
import os
import sys
import time
import traceback

from . import factcache
from .facts import Facts, AnchorMissing

VERIF = factcache.VERIF
REPO = factcache.REPO

_FACTS_MEMO = {}


class Ctx:
    def __init__(self, prop, tier, seed):
        self.prop = prop
        self.tier = tier
        self.seed = seed
        self.repo = REPO
        self.oblig = []      # dicts: rule, instance, verdict(ok|violation|known|info), where, detail, key
        self.notes = []
        self.assumptions = []
        self.counters = {}
        self._facts = None
        self.fact_hash = None
        self.fact_info = {}
        self.floors = _load_json(os.path.join(VERIF, "tables", "floors.json"), {})
        kf = _load_json(os.path.join(VERIF, "known_findings.json"), {"known": [], "fixed": []})
        self.known = {k["key"]: k for k in kf.get("known", []) if k.get("property") == prop}
        self.fixed = [k for k in kf.get("fixed", []) if k.get("property") == prop]

    # ------------------------------------------------------------------ facts
    def facts(self):
        if self._facts is None:
            fdir, th, gen, secs = factcache.ensure(self.repo)
            self.fact_hash = th
            self.fact_info = {"fact_dir": fdir, "generated_now": gen, "fact_seconds": round(secs, 1)}
            crates = getattr(self, "crates", None)
            mk = (fdir, tuple(crates) if crates else None)
            if mk not in _FACTS_MEMO:
                _FACTS_MEMO[mk] = Facts(fdir, crates)
            self._facts = _FACTS_MEMO[mk]
        return self._facts

    def src(self, rel):
        """read a source file of the repository's working tree"""
        with open(os.path.join(self.repo, rel), encoding="utf-8") as fh:
            return fh.read()

    # ------------------------------------------------------------------ verdicts
    def ok(self, rule, instance, detail="", where="", nontrivial=True):
        self.oblig.append({"rule": rule, "instance": instance, "verdict": "ok", "where": where,
                           "detail": detail, "nontrivial": nontrivial})

    def bad(self, rule, key, what, where="", detail=None):
        """a violated obligation; `key` must be stable (no line numbers)"""
        full = "%s|%s" % (rule, key)
        verdict = "known" if full in self.known else "violation"
        self.oblig.append({"rule": rule, "instance": key, "verdict": verdict, "where": where,
                           "detail": what, "key": full, "extra": detail, "nontrivial": True})

    def info(self, rule, text, **kw):
        self.notes.append(dict({"rule": rule, "text": text}, **kw))

    def count(self, name, n=1):
        self.counters[name] = self.counters.get(name, 0) + n

    def assume(self, text):
        if text not in self.assumptions:
            self.assumptions.append(text)

    def require_floor(self, rule, name, n, floor=None):
        """fail closed when a rule matched fewer instances than counted by hand on the pinned tree"""
        if floor is None:
            floor = self.floors.get(self.prop, {}).get(name)
        if floor is None:
            raise AnchorMissing("no floor recorded for %s/%s" % (self.prop, name))
        if n < floor:
            self.bad(rule, "floor|%s" % name,
                     "rule instance count %d for '%s' fell below the hand-confirmed floor %d (rule would pass vacuously)"
                     % (n, name, floor))
        else:
            self.ok(rule, "floor:%s" % name, "instances=%d floor=%d" % (n, floor), nontrivial=False)

    def check(self, cond, rule, key, what_ok, what_bad, where="", nontrivial=True):
        if cond:
            self.ok(rule, key, what_ok, where, nontrivial)
        else:
            self.bad(rule, key, what_bad, where)
        return cond


def _load_json(p, default):
    try:
        with open(p) as fh:
            return json.load(fh)
    except FileNotFoundError:
        return default


def _replay_path(prop, key):
    h = hashlib.sha1(key.encode()).hexdigest()[:12]
    d = os.path.join(VERIF, "evidence", "replay")
    os.makedirs(d, exist_ok=True)
    return os.path.join(d, "%s-%s.json" % (prop, h))


def run_property(prop, tier="quick", seed=0, replay=None, out=sys.stdout):
    t0 = time.time()
    ctx = Ctx(prop, tier, seed)
    mod = importlib.import_module("pv.rules.%s" % prop.lower())
    ctx.crates = getattr(mod, "CRATES", None)   # fact files this property needs (None = all)
    only_key = None
    if replay:
        with open(replay) as fh:
            only_key = json.load(fh)["key"]
    fatal = None
    try:
        mod.check(ctx)
    except AnchorMissing as e:
        rule = getattr(e, "rule", None) or "anchor"
        ctx.bad(rule, "anchor-missing|%s" % str(e),
                "anchor cannot be resolved on the current tree: %s (fail closed; re-confirm the rule)" % e)
    except RuntimeError as e:
        fatal = "%s" % e
    except Exception:
        fatal = traceback.format_exc()
    selftest = None
    if tier == "thorough" and fatal is None and not replay:
        from . import selftest as st

        def make_ctx(repo):
            c = Ctx(prop, tier, seed)
            c.repo = repo
            c.crates = ctx.crates
            return c
        try:
            selftest = st.run(prop, mod, make_ctx, seed, log=sys.stderr)
        except Exception:
            selftest = {"error": traceback.format_exc()[-600:]}
    wall = time.time() - t0

    viol = [o for o in ctx.oblig if o["verdict"] == "violation"]
    known = [o for o in ctx.oblig if o["verdict"] == "known"]
    oks = [o for o in ctx.oblig if o["verdict"] == "ok"]
    if only_key is not None:
        viol = [o for o in viol if o.get("key") == only_key]

    # --------------------------------------------------------------- evidence
    meta = getattr(mod, "META", {})
    samples = []
    for o in (viol + known + oks)[:40]:
        samples.append({"rule": o["rule"], "instance": o["instance"], "verdict": o["verdict"],
                        "where": o["where"], "detail": o["detail"]})
    nontrivial = {(o["rule"], o["instance"]) for o in ctx.oblig if o.get("nontrivial")}
    cov = {
        "explanation": meta.get("explanation", "") + (" FATAL: " + fatal if fatal else ""),
        "obligations": len(ctx.oblig),
        "discharged": len(oks),
        "evaluations": len(ctx.oblig),
        "distinct_nontrivial": len(nontrivial),
        "rule": meta.get("rule", "each obligation is one instance of a structural rule evaluated on the MIR/"
                                 "source facts of the current tree; non-trivial = needed a path, dominance, "
                                 "call-graph or data-flow argument (floors and constant look-ups are trivial)"),
        "samples": samples or [{"note": "no obligation was evaluated"}],
        "known_findings": [{"key": o["key"], "what": o["detail"], "where": o["where"]} for o in known],
        "violations": [{"key": o.get("key"), "what": o["detail"], "where": o["where"]} for o in viol],
        "rules": sorted({o["rule"] for o in ctx.oblig}),
        "counters": ctx.counters,
        "notes": ctx.notes[:60],
        "fact_hash": ctx.fact_hash,
        "facts": ctx.fact_info,
        "checker_cmd": "./check %s --tier %s" % (prop, tier),
        "trusted_base": ["rustc nightly MIR construction + Instance::try_resolve", "factgen driver",
                         "pv rule evaluator (python)"],
        "exhaustive": False,
    }
    if selftest is not None:
        cov["selftest"] = selftest
        missed = [r["name"] for r in selftest.get("results", []) if r.get("status") == "MISSED"]
        for m in missed:
            print("[%s] SELFTEST-MISS: rule did not fire on mutant %s (checker weakness, not a violation of the tree)"
                  % (prop, m), file=out)
        for r in selftest.get("results", []):
            if r.get("status") == "FALSE-ALARM":
                print("[%s] SELFTEST-FALSE-ALARM: rule(s) %s fired on the behaviour-preserving edit %s (checker weakness, not a "
                      "violation of the tree)" % (prop, r.get("fired"), r.get("name")), file=out)
    ev = {
        "property_id": prop,
        "tier": tier,
        "seed": seed,
        "level": "other",
        "coverage": cov,
        "assumptions": ctx.assumptions + meta.get("assumptions", []),
        "wall_s": round(wall, 2),
        "violations": len(viol),
    }
    os.makedirs(os.path.join(VERIF, "evidence"), exist_ok=True)
    evp = os.path.join(VERIF, "evidence", "%s.json" % prop)
    tmp = evp + ".tmp.%d" % os.getpid()
    with open(tmp, "w") as fh:
        json.dump(ev, fh, indent=1, sort_keys=True)
    os.replace(tmp, evp)

    # --------------------------------------------------------------- report
    print("[%s] tier=%s facts=%s obligations=%d ok=%d known=%d violations=%d wall=%.1fs"
          % (prop, tier, ctx.fact_hash, len(ctx.oblig), len(oks), len(known), len(viol), wall), file=out)
    for o in known:
        print("KNOWN-FINDING: property=%s %s [%s] %s" % (prop, o["key"], o["where"], o["detail"]), file=out)
    if fatal:
        print("[%s] ERROR: %s" % (prop, fatal), file=out)
        return 2
    for o in viol:
        rp = _replay_path(prop, o["key"])
        with open(rp, "w") as fh:
            json.dump({"property": prop, "key": o["key"], "rule": o["rule"], "where": o["where"],
                       "what": o["detail"], "extra": o.get("extra"), "fact_hash": ctx.fact_hash}, fh, indent=1)
        print("  rule=%s instance=%s" % (o["rule"], o["instance"]), file=out)
        print("  at %s" % o["where"], file=out)
        print("  %s" % o["detail"], file=out)
        if o.get("extra"):
            print("  %s" % json.dumps(o["extra"])[:2000], file=out)
        print("VIOLATION property=%s replay=%s" % (prop, rp), file=out)
    return 1 if viol else 0
