#!/usr/bin/env python3
"""tools/freeze_panics.py C26|C30 : (re)write tables/<prop>_panics.json from the *current* tree, keeping the class and
reason of keys that are already in the table.  Run by hand when a new site was reviewed; never by a check."""
import json, os, sys
sys.path.insert(0, "/verif")
from pv import core
from pv.rules import c26, c30
prop = sys.argv[1]
mod = {"C26": c26, "C30": c30}[prop]
ctx = core.Ctx(prop, "quick", 0)
ctx.crates = mod.CRATES
found = mod.inventory(ctx)
p = "/verif/tables/%s_panics.json" % prop.lower()
old = json.load(open(p)) if os.path.isfile(p) else {}
out = {}
for k, sites in sorted(found.items()):
    e = old.get(k, {"class": "baseline-unreviewed", "reason": ""})
    e["count"] = len(sites)
    out[k] = e
json.dump(out, open(p, "w"), indent=1, sort_keys=True)
print(len(out), "keys,", sum(e["count"] for e in out.values()), "sites")
