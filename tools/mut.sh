#!/bin/sh
# tools/mut.sh <patch> <prop>...  : apply a patch to /repo, run the given checks, always revert.
# usage for reverse patches: MUT_REVERSE=1
P="$1"; shift
cd /repo || exit 2
if [ -n "$(git status --porcelain)" ]; then echo "repo dirty"; exit 2; fi
if [ -n "$MUT_REVERSE" ]; then git apply -R "$P" || exit 2; else git apply "$P" || exit 2; fi
rc=0
for p in "$@"; do (cd /verif && ./check "$p"); r=$?; echo "== $p exit=$r"; [ $r -ne 0 ] && rc=$r; done
git checkout -- . ; git clean -fdq crates 2>/dev/null
exit $rc
