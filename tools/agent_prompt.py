#!/usr/bin/env python3
"""print the sub-agent prompt for a property id (only the property text + worktree path; nothing from /verif)"""
import json, sys
pid = sys.argv[1]
wt = sys.argv[2] if len(sys.argv) > 2 else "/tmp/wt/" + pid
extra = sys.argv[3] if len(sys.argv) > 3 else ""
for l in open('/verif/properties.jsonl'):
    p = json.loads(l)
    if p['id'] == pid:
        break
print(f"""You are working in a scratch git worktree of the open-source Rust project jsinger67/parol (an LL(k)/LALR(1) parser generator with a runtime library and a language server) located at {wt}. Work ONLY inside {wt}; never read or modify /repo or /verif.

A property that users of this project rely on:
  "{p['title']}": {p['statement']}
  (Quantifier: {p['quantifier']['text']})

Your task: craft ONE realistic source change to the non-test source code under {wt}/crates/ that BREAKS this property, like a plausible bug a developer could introduce (refactoring slip, off-by-one, wrong predicate, dropped or weakened guard, reordered statements, a stale value, two cooperating sites that each look fine alone ...), such that
  (a) the workspace still compiles:  cd {wt} && cargo build --workspace --offline
  (b) the existing test-suite still passes, unedited:  cd {wt} && cargo test --workspace --no-fail-fast --offline   (a few minutes; the target dir is pre-seeded; some integration tests need {wt}/target/debug/parol which the build produces)
  (c) the breakage needs something specific to manifest (an unusual grammar or input, a particular multi-step sequence of operations, a particular interleaving / timing, a fault at a particular point, or two cooperating sites) - NOT something that ordinary use or the existing tests expose at once.
Keep it small (at most ~30 changed lines), do not touch existing tests, do not add cfg flags / cargo features, and do not add comments that announce the bug. {extra}

Also write a demonstration: a new test file (for example crates/<crate>/tests/seeded_demo.rs, or a #[cfg(test)] module in a NEW file, or a small example program/script driving the built binaries) that FAILS with your change and PASSES on the original code. Verify both directions yourself (save your change with `git diff > SEEDED/patch.diff`, then `git apply -R SEEDED/patch.diff`, run the demo -> passes; `git apply SEEDED/patch.diff`, run it -> fails. NEVER use `git stash`: the stash is shared with other worktrees of this repository and would mix up changes).

Deliver in {wt}/SEEDED/ :
  - patch.diff : `git diff` of the source change only (not the demo files)
  - the demo file(s) (copies) and demo.md with the exact commands to run the demo and the expected pass/fail output
  - notes.md : what the change does, why it breaks the property, what it needs in order to manifest, and the evidence you collected: build ok, the test-suite summary (all 'test result:' lines, must be all ok), demo fails with the change / passes without it.
Do not commit anything and do not delete the worktree. There is no network: always pass --offline to cargo. If a first idea turns out to be caught by the existing tests, try another one; report honestly if you cannot find one. Your final answer should be a short summary (what you changed, file/function, how it manifests, and whether all of (a),(b),(c) and the demo were confirmed).""")
