#!/usr/bin/env python3
"""Regenerates /verif/MANIFEST.json from tables/claims.json (claimed properties) and the list of rule modules."""
import json, os
V = os.path.dirname(os.path.dirname(os.path.abspath(__file__)))
props = [json.loads(l) for l in open(os.path.join(V, "properties.jsonl"))]
claims = json.load(open(os.path.join(V, "tables", "claims.json")))
checks = []
na = []
for p in props:
    pid = p["id"]
    c = claims.get(pid)
    have = os.path.isfile(os.path.join(V, "pv", "rules", pid.lower() + ".py"))
    if c and c.get("claimed") and have:
        checks.append({
            "property_id": pid,
            "quick_cmd": "./check %s --tier quick" % pid,
            "thorough_cmd": "./check %s --tier thorough" % pid,
            "evidence_file": "/verif/evidence/%s.json" % pid,
            "replay_cmd_template": "./check %s --replay {path}" % pid,
            "engine": "factgen+pv",
            "level_claimed": {"category": "other", "text": c["text"], "design_ref": c.get("design_ref", "DESIGN.md §4 " + pid)},
            "level_note": c["note"],
            "technique": c["technique"],
        })
    else:
        reason = (c or {}).get("na_reason") or "static rule designed (DESIGN.md §4) but not built yet; not claimed until its rule exists"
        na.append({"property_id": pid, "reason": reason})
m = {
    "version": 1,
    "setup_cmd": "./setup.sh",
    "hooks": {"guard": "parol_verif",
              "enable": "none: static analysis reads /repo's source (MIR via a rustc driver on a scratch copy); no hooks or instrumentation exist in /repo",
              "baseline_off_cmd": "cd /repo && cargo test --workspace --no-fail-fast --offline",
              "source_commits": [], "add_only": True},
    "engines": [
        {"name": "factgen", "path": "driver/", "serves_properties": [c["property_id"] for c in checks],
         "kind_free_text": "rustc_private driver (nightly) injected with RUSTC_WORKSPACE_WRAPPER under cargo check on a scratch copy of /repo's working tree; dumps resolved MIR, ADTs, constants as JSON facts keyed by a content hash of the tree"},
        {"name": "pv", "path": "pv/", "serves_properties": [c["property_id"] for c in checks],
         "kind_free_text": "python rule evaluator: dominators, post-dominators, control dependence, natural loops, bool-flag sensitive path search, value-origin data flow, crate-spanning call graph; one module per property under pv/rules/"},
        {"name": "artefact", "path": "pv/artefact/", "serves_properties": ["C16", "C34"],
         "kind_free_text": "analysers of non-Rust sources read from /repo: PAR grammar reader/normaliser/bisimulation, generated-table reader, constant-regex totality analyser"},
    ],
    "checks": checks,
    "not_applicable": na,
    "notes": "Technique family: static analysis only. Every check decides named structural clauses (necessary conditions) of its property on the MIR of /repo's current working tree; see DESIGN.md. Genuine defects found: six fixed by 'fix:' commits in /repo, the rest listed in known_findings.json.",
}
json.dump(m, open(os.path.join(V, "MANIFEST.json"), "w"), indent=1)
print("checks:", [c["property_id"] for c in checks])
print("not_applicable:", [n["property_id"] for n in na])
