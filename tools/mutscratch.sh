#!/bin/sh
# tools/mutscratch.sh <patch> <prop>... : like mut.sh but on a scratch copy (never touches /repo)
P="$1"; shift
D=/var/tmp/parol-verif-mutscratch.$$
rm -rf $D; mkdir -p $D
rsync -a --exclude /target --exclude .git --exclude /book --exclude /examples /repo/ $D/
(cd $D && patch -p1 -s < "$P") || { echo "patch failed"; rm -rf $D; exit 2; }
rc=0
for p in "$@"; do (cd /verif && PAROL_REPO=$D ./check "$p"); r=$?; echo "== $p exit=$r"; [ $r -ne 0 ] && rc=$r; done
rm -rf $D
exit $rc
