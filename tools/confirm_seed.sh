#!/bin/bash
# tools/confirm_seed.sh <id> <worktree> "<demo command>" : re-confirm a sub-agent's seeded change myself:
#   patch applies to a clean tree, builds, the unedited test-suite passes with it (demo files moved away),
#   the demo fails with the change and passes without it.  Log: /var/tmp/confirm_<id>.log
ID="$1"; WT="$2"; DEMO="$3"
LOG=/var/tmp/confirm_$ID.log
exec > "$LOG" 2>&1
cd "$WT" || exit 2
set -x
git stash list
# 1. start from clean source + demo files
cp SEEDED/patch.diff /var/tmp/confirm_$ID.patch
git checkout -- crates
git apply --check /var/tmp/confirm_$ID.patch || { echo "CONFIRM: patch does not apply"; exit 1; }
# demo without change -> must pass
( eval "$DEMO" ) ; R0=$?
git apply /var/tmp/confirm_$ID.patch
( eval "$DEMO" ) ; R1=$?
# full suite with the change, demo files moved away
mkdir -p /var/tmp/confirm_$ID.demo
git status --porcelain | grep '^??' | grep -v SEEDED | awk '{print $2}' > /var/tmp/confirm_$ID.untracked
tar cf /var/tmp/confirm_$ID.demo/demo.tar -T /var/tmp/confirm_$ID.untracked 2>/dev/null
xargs -a /var/tmp/confirm_$ID.untracked rm -rf
cargo build --workspace --offline ; RB=$?
cargo test --workspace --no-fail-fast --offline > /var/tmp/confirm_$ID.suite.log 2>&1 ; RT=$?
tar xf /var/tmp/confirm_$ID.demo/demo.tar
set +x
P=$(grep -E "^test result" /var/tmp/confirm_$ID.suite.log | awk '{p+=$4; f+=$6} END {print p" passed "f" failed"}')
echo "CONFIRM id=$ID demo_without_change_exit=$R0 demo_with_change_exit=$R1 build_exit=$RB suite_exit=$RT suite=$P"
