#!/usr/bin/env python3
"""tools/mkmut.py : (re)generate selftest/<prop>/<rule>-<name>.patch from the MUTANTS table below.
Each mutant is a small textual replacement made in a throw-away git worktree of /repo's HEAD (/repo itself is never
touched); the patch is `git diff`."""
import os, subprocess, sys
SRC = "/repo"
REPO = "/var/tmp/parol-verif-mkmut-wt"
OUT = "/verif/selftest"
RT = "crates/parol_runtime/src/"
PA = "crates/parol/src/"
LS = "crates/parol-ls/src/"
M = []
def mut(prop, rule, name, file, old, new, count=1):
    M.append((prop, rule, name, file, old, new, count))

exec(open("/verif/selftest/mutants.py").read())

def main():
    only = sys.argv[1:] 
    subprocess.call(["git", "-C", SRC, "worktree", "remove", "--force", REPO], stderr=subprocess.DEVNULL)
    subprocess.check_call(["git", "-C", SRC, "worktree", "add", "-q", "--detach", REPO, "HEAD"])
    try:
        run(only)
    finally:
        subprocess.call(["git", "-C", SRC, "worktree", "remove", "--force", REPO])
        subprocess.call(["git", "-C", SRC, "worktree", "prune"])


def run(only):
    for prop, rule, name, file, old, new, count in M:
        if only and prop not in only:
            continue
        p = os.path.join(REPO, file)
        s = open(p).read()
        if s.count(old) != count:
            print("SKIP %s %s-%s: pattern occurs %d times (expected %d)" % (prop, rule, name, s.count(old), count))
            continue
        open(p, "w").write(s.replace(old, new))
        d = subprocess.check_output(["git", "-C", REPO, "diff"], text=True)
        subprocess.check_call(["git", "-C", REPO, "checkout", "--", "."])
        os.makedirs(os.path.join(OUT, prop), exist_ok=True)
        open(os.path.join(OUT, prop, "%s-%s.patch" % (rule, name)), "w").write(d)
        print("wrote", prop, rule, name)
main()
