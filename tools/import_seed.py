#!/usr/bin/env python3
"""tools/import_seed.py <seed-id> <property> <worktree> <demo_cmd> <needs> <detected_by> : store a confirmed seeded change"""
import json, os, shutil, subprocess, sys, re
sid, prop, wt, demo_cmd, needs, detected = sys.argv[1:7]
dst = os.path.join("/verif/seeded", sid)
os.makedirs(dst, exist_ok=True)
src = os.path.join(wt, "SEEDED")
for f in os.listdir(src):
    p = os.path.join(src, f)
    if os.path.isfile(p) and os.path.getsize(p) < 400000 and not f.endswith(".log"):
        shutil.copy(p, os.path.join(dst, f))
conf = ""
lp = "/var/tmp/confirm_%s.log" % (sys.argv[7] if len(sys.argv) > 7 else sid.split("-")[0])
if os.path.isfile(lp):
    for l in open(lp, errors="replace"):
        if l.startswith("CONFIRM"):
            conf = l.strip()
meta = {
    "seed_id": sid, "property": prop,
    "origin": "written by an independent sub-agent that was given only the property text and a scratch worktree",
    "needs_to_manifest": needs,
    "confirmed_by_me": {
        "how": "tools/confirm_seed.sh in the agent's scratch worktree: patch applies to a clean tree; demo run on the clean tree (must pass) and with the patch (must fail); cargo build --workspace --offline; cargo test --workspace --no-fail-fast --offline with the patch and the demo files moved away",
        "demo_cmd": demo_cmd, "result": conf},
    "checks_run": "git -C /repo apply patch.diff; ./check <prop>; git -C /repo checkout -- .",
    "detected_by": detected,
}
json.dump(meta, open(os.path.join(dst, "meta.json"), "w"), indent=1)
print(json.dumps(meta, indent=1))
