// Feasibility probe used in the design phase (NOT the framework): a minimal rustc_private driver.
// Cargo.toml: no dependencies, `[workspace]`; rust-toolchain.toml: channel = "nightly".
// Build: cargo build --offline --release   (10 s)
// Run:   LD_LIBRARY_PATH=$(rustc +nightly --print sysroot)/lib RUSTFLAGS="-Zmir-opt-level=0 -Awarnings" \
//        RUSTC_WORKSPACE_WRAPPER=<this binary> CARGO_TARGET_DIR=<fresh dir> \
//        cargo +nightly check --offline -p parol_runtime
// Observed: crate=parol_runtime fns=342 calls=2218; resolved callee paths such as
//   lr_parser::parser_types::LRParser::<'t>::call_action::{closure#0} -> lexer::token::Token::<'t>::is_skip_token
#![feature(rustc_private)]
extern crate rustc_driver;
extern crate rustc_hir;
extern crate rustc_interface;
extern crate rustc_middle;
extern crate rustc_span;
use rustc_driver::Compilation;
use rustc_hir::def::DefKind;
use rustc_middle::mir::{Const, Operand, TerminatorKind};
use rustc_middle::ty::TyCtxt;
struct Cb;
impl rustc_driver::Callbacks for Cb {
    fn after_analysis<'tcx>(&mut self, _c: &rustc_interface::interface::Compiler, tcx: TyCtxt<'tcx>) -> Compilation {
        let krate = tcx.crate_name(rustc_span::def_id::LOCAL_CRATE);
        let (mut nfn, mut ncalls) = (0, 0);
        for did in tcx.mir_keys(()) {
            let dk = tcx.def_kind(did.to_def_id());
            if !matches!(dk, DefKind::Fn | DefKind::AssocFn | DefKind::Closure) { continue; }
            let body = tcx.optimized_mir(did.to_def_id());
            nfn += 1;
            for bb in body.basic_blocks.iter() {
                if let Some(t) = &bb.terminator {
                    if let TerminatorKind::Call { func: Operand::Constant(c), .. } = &t.kind {
                        if let Const::Val(_, ty) = c.const_ {
                            if let rustc_middle::ty::FnDef(d, _) = ty.kind() {
                                ncalls += 1;
                                if tcx.def_path_str(*d).contains("is_skip_token") {
                                    eprintln!("CALL {} -> {}", tcx.def_path_str(did.to_def_id()), tcx.def_path_str(*d));
                                }
                            }
                        }
                    }
                }
            }
        }
        eprintln!("FACT crate={} fns={} calls={}", krate, nfn, ncalls);
        Compilation::Continue
    }
}
fn main() {
    // RUSTC_WORKSPACE_WRAPPER passes: argv[0]=wrapper, argv[1]=path to rustc, rest = rustc args.
    let mut a = vec!["rustc".to_string()];
    a.extend(std::env::args().skip(2));
    rustc_driver::run_compiler(&a, &mut Cb);
}
