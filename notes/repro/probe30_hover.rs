use crate::{parol_ls_grammar::ParolLsGrammar, parol_ls_parser::parse};
use lsp_types::{HoverParams, Position, TextDocumentIdentifier, TextDocumentPositionParams, WorkDoneProgressParams};
#[test]
fn hover_on_terminal_with_two_t_type_declarations() {
    let src = "%start A\n%t_type crate::T1\n%t_type crate::T2\n%%\nA: \"x\";\n";
    let mut g = ParolLsGrammar::new();
    parse(src, "p.par", &mut g).unwrap();
    let params = HoverParams {
        text_document_position_params: TextDocumentPositionParams {
            text_document: TextDocumentIdentifier { uri: "file:///p.par".parse().unwrap() },
            position: Position { line: 4, character: 4 },
        },
        work_done_progress_params: WorkDoneProgressParams::default(),
    };
    let h = g.hover(params, src);
    println!("{:?}", h);
}
