use parol_runtime::TokenStream;
use scnr2::scanner;
scanner!( GapScanner { mode INITIAL {
    token r"\r\n|\r|\n" => 1; token r"[\s--\r\n]+" => 2; token r"a" => 5; } } );
#[test]
fn p11_gap_location() {
    let scanner = gap_scanner::GapScanner::new();
    let mut ts = TokenStream::new("a\n ?? a", "f", scanner.scanner_impl.clone(), &gap_scanner::GapScanner::match_function, 1).unwrap();
    loop {
        for t in ts.take_skip_tokens() { println!("SKIP  {:?} ty={} loc={:?}", t.text(), t.token_type, (t.location.start_line, t.location.start_column, t.location.end_line, t.location.end_column, t.location.start, t.location.end)); }
        let t = ts.lookahead(0).unwrap();
        println!("TOKEN {:?} ty={} loc={:?}", t.text(), t.token_type, (t.location.start_line, t.location.start_column, t.location.end_line, t.location.end_column, t.location.start, t.location.end));
        if t.token_type == 0 { break; }
        ts.consume().unwrap();
    }
}
