// Throw-away triage probe (NOT part of the checking machinery, which is static).
// Drop into a scratch copy as crates/parol-ls/src/probe27.rs, add `#[cfg(test)] mod probe27;` to main.rs and run
//   cargo test --offline -p parol-ls probe27 -- --nocapture
// Observed on the tree before commit 27058f4: all four fail; afterwards trailing_comment passes, the other three are the
// known finding D14 (text-level rewriting inside literals).
use crate::{formatting::Format, parol_ls_grammar::ParolLsGrammar, parol_ls_parser::parse};
use lsp_types::FormattingOptions;
fn fmt(src: &str) -> String {
    let mut g = ParolLsGrammar::new();
    parse(src, "p.par", &mut g).unwrap();
    let e = (&g.grammar.unwrap()).format(&FormattingOptions::default(), g.comments.clone());
    e[0].new_text.clone()
}
#[test]
fn blanks() { let f = fmt("%start A\n%%\nA: \"d  d\" | \"e\";\n"); println!("{f}"); assert!(f.contains("\"d  d\"")); }
#[test]
fn newline_bar() { let f = fmt("%start A\n%%\nA: /a\n    | b/ | \"e\";\n"); println!("{f}"); assert!(f.contains("/a\n    | b/")); }
#[test]
fn bar_in_literal() {
    let f = fmt("%start A\n%%\nA: \"x | y\" B;\nB: ( \"aaaaaaaaaaaaaaaaaaaaaaaaaaaaaa | bbbbbbbbbbbbbbbbbbbbbbbbbbbbbbbbbbbbbbbbbbbbbbbbbbb\" | \"cccccccccccccccccccccccccccccccccccccccccccccc\" | \"d  d\" );\n");
    println!("{f}");
    assert!(f.contains("aaaaaaaaaaaaaaaaaaaaaaaaaaaaaa | bbbb"));
}
#[test]
fn trailing_comment() { let f = fmt("%start A\n%%\nA: \"x\";\n// trailing comment after the last production\n"); assert!(f.contains("trailing comment")); }
