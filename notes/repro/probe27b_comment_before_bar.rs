// Throw-away triage probe (NOT part of the checking machinery, which is static).
// Drop into a scratch copy as crates/parol-ls/src/probe27b.rs, add `#[cfg(test)] mod probe27b;` to main.rs and run
//   cargo test --offline -p parol-ls probe27b -- --nocapture
// Before the fix: both comments are missing from the output (`A   : ( "a" | "b" ) [ "x" | "y" ]`); afterwards both are kept and
// formatting the output again is the identity.
use crate::{formatting::Format, parol_ls_grammar::ParolLsGrammar, parol_ls_parser::parse};
use lsp_types::FormattingOptions;
fn fmt(src: &str) -> String {
    let mut g = ParolLsGrammar::new();
    parse(src, "p.par", &mut g).unwrap();
    let e = (&g.grammar.unwrap()).format(&FormattingOptions::default(), g.comments.clone());
    e[0].new_text.clone()
}
#[test]
fn comment_before_bar_in_group() {
    let f = fmt("%start A\n%%\nA: ( \"a\" /* c1 */ | \"b\" ) [ \"x\" // c2\n | \"y\" ];\n");
    println!("{f}");
    assert!(f.contains("c1") && f.contains("c2"));
    let f2 = fmt(&f);
    assert_eq!(f, f2, "idempotent");
}
