// Throw-away triage probe (NOT part of the checking machinery, which is static).
// Drop into a scratch copy as crates/parol_runtime/tests/probe.rs and run
//   cargo test --offline -p parol_runtime --test probe -- --nocapture --test-threads 1
// Observed on the pinned tree (a1e3e6b):
//   P1 eval("x d") = Some(2)         -> C08: an unmatched token was skipped while reading lookahead
//   P6 "a\na" yields 2 matches        -> C16: catch-all `.` does not match '\n'
//   P7 trim=false actions=["p0:b"], trim=true actions=["p0:a"] -> C17/C20: LR counts a state-skip token as a child
use parol_runtime::{LookaheadDFA, TokenStream, Trans, ParseTreeType, Result, Token, UserActionsTrait};
use parol_runtime::lr_parser::{LRParser, LRParseTable, LR1State, LRAction, LRProduction};
use scnr2::scanner;

scanner!( P1Scanner { mode INITIAL {
    token r"[\s--\r\n]+" => 2; token r"a" => 5; token r"b" => 6; token r"c" => 7;
    token r"d" => 8; token r"x" => 9; token "." => 10; } } );
scanner!( NlScanner { mode INITIAL { token r"a" => 5; token "." => 6; } } );
scanner!( SkipScanner { mode INITIAL {
    token r"[\s--\r\n]+" => 2; token r"a" => 5; token r"b" => 6; token "." => 7; } } );

// DFA: 0 -a-> 1, 1 -b-> 2 (p0), 1 -c-> 3 (p1), 0 -d-> 4 (p2); k = 2
static TRANS: [Trans; 4] = [Trans(0, 5, 1, -1), Trans(0, 8, 4, 2), Trans(1, 6, 2, 0), Trans(1, 7, 3, 1)];

#[test]
fn p1_eval_skips_unmatched() {
    let dfa = LookaheadDFA::new(-1, &TRANS, 2);
    let scanner = p1_scanner::P1Scanner::new();
    let mut ts = TokenStream::new("x d", "f", scanner.scanner_impl.clone(), &p1_scanner::P1Scanner::match_function, 2).unwrap();
    let r = dfa.eval(&mut ts, 0);
    println!("P1 eval(x d) = {:?}", r.as_ref().ok());
    assert!(r.is_err(), "eval predicted a production although tokens start with unmatched 'x'");
}

#[test]
fn p6_error_token_does_not_match_newline() {
    let scanner = nl_scanner::NlScanner::new();
    let ms: Vec<_> = scanner.find_matches("a\na", 0).collect();
    println!("P6 matches: {:?}", ms);
    assert_eq!(ms.len(), 3, "newline was not matched by the catch-all pattern");
}

struct Rec(Vec<String>);
impl<'t> UserActionsTrait<'t> for Rec {
    fn call_semantic_action_for_production_number(&mut self, prod_num: usize, children: &[ParseTreeType<'t>]) -> Result<()> {
        self.0.push(format!("p{prod_num}:{}", children.iter().map(|c| match c { ParseTreeType::T(t) => t.text().to_string(), ParseTreeType::N(n) => n.to_string() }).collect::<Vec<_>>().join(",")));
        Ok(())
    }
    fn on_comment(&mut self, _t: Token<'t>) {}
}
static TN: [&str; 8] = ["EndOfInput","Newline","Whitespace","LineComment","BlockComment","A","B","Error"];
static NTN: [&str; 1] = ["S"];
static PRODS: [LRProduction; 1] = [LRProduction { lhs: 0, len: 1, is_push_production: false }];
static ACTIONS: [LRAction; 2] = [LRAction::Shift(1), LRAction::Accept];
static STATES: [LR1State; 2] = [LR1State { actions: &[(5, 0)], gotos: &[] }, LR1State { actions: &[(0, 1)], gotos: &[] }];
static TABLE: LRParseTable = LRParseTable { actions: &ACTIONS, states: &STATES };
static SKIPS: [&[u16]; 1] = [&[6]];

#[test]
fn p7_lr_state_skip() {
    for trim in [false, true] {
        let mut p = LRParser::new(0, &TABLE, &PRODS, &TN, &NTN);
        if trim { p.trim_parse_tree(); }
        let scanner = skip_scanner::SkipScanner::new();
        let ts = TokenStream::new_with_skip_tokens("a b", "f", scanner.scanner_impl.clone(), &skip_scanner::SkipScanner::match_function, 1, &SKIPS).unwrap();
        let mut rec = Rec(vec![]);
        let r = p.parse(ts, &mut rec);
        println!("P7 trim={trim} ok={} actions={:?}", r.is_ok(), rec.0);
    }
}
